"""C16 - the checked-in generated parser implements exactly the grammar file.

Translation validation: the grammar is compiled with Lark (as a tool) the way the
Makefile does, both serialisations are normalised to a version-independent form, and
terminals, rules, options and the LALR automaton are compared up to state renaming.
Same terminals + same rules (incl. tree-shaping options) + isomorphic tables, run by
the same table-driven runtime, accept the same language and build the same trees.
"""
from __future__ import annotations

import ast
import os
import re
import shlex
from typing import Any, Dict, List, Set, Tuple

from ..core import REPO, SRC, AnalysisError, Report, rel
from ..grammar import Tables, build_reference, extract_shipped, isomorphism, normalise

TITLE = "The checked-in generated parser implements exactly the grammar file"


def makefile_flags() -> Dict[str, Any]:
    path = os.path.join(REPO, "Makefile")
    if not os.path.exists(path):
        raise AnalysisError("Makefile not found")
    text = open(path, encoding="utf-8").read().replace("\\\n", " ")
    m = re.search(r"^\s*python -m lark\.tools\.standalone(.*)$", text, re.M)
    if not m:
        raise AnalysisError("Makefile no longer regenerates the parser with lark.tools.standalone")
    cmd = m.group(1).split("|")[0]
    toks = shlex.split(cmd)
    starts: List[str] = []
    flags: List[str] = []
    i = 0
    while i < len(toks):
        t = toks[i]
        if t in ("--start", "-s") and i + 1 < len(toks):
            starts.append(toks[i + 1])
            i += 2
            continue
        if t.startswith("-"):
            flags.append(t)
        i += 1
    return {"starts": starts, "flags": flags, "rename": "Lark_StandAlone/Parser" in text}


def parse_starts(parsing_py_users: List[Tuple[str, str]]) -> None:
    pass


def lexer_wiring(rep: Report, tree: ast.Module) -> None:
    """R16.7: the embedded runtime may differ from the installed Lark (other version), so it cannot be
    compared text for text - but the language it accepts is the grammar's only if the lexer consumes
    input solely through the scanner built from the compared terminal table:
      a. the input position `char_pos` is assigned only inside its owner (LineCounter);
      b. every LineCounter.feed(..) in the lexers is fed the text that `self.match(..)` returned;
      c. BasicLexer.match is the scanner's match, and Scanner.match returns what a compiled terminal
         regex matched at the position."""
    classes = {n.name: n for n in tree.body if isinstance(n, ast.ClassDef)}
    for need in ("LineCounter", "BasicLexer", "Scanner"):
        if need not in classes:
            raise AnalysisError(f"_parser.py: class {need} not found (R16.7 anchor moved)")
    # a
    for cname, c in classes.items():
        for n in ast.walk(c):
            tg = n.targets if isinstance(n, ast.Assign) else ([n.target] if isinstance(n, (ast.AugAssign, ast.AnnAssign)) else [])
            for t in tg:
                if isinstance(t, ast.Attribute) and t.attr == "char_pos":
                    rep.check("R16.7", f"{cname}:char_pos@{'owner' if cname == 'LineCounter' else ast.unparse(n)[:40]}", cname == "LineCounter",
                              f"`{ast.unparse(n)[:60]}` in {cname} moves the input position outside LineCounter: input is consumed without "
                              "being matched against the terminal table", f"src/measured/_parser.py:{n.lineno}")
    # b
    nfeed = 0
    for cname in ("BasicLexer", "ContextualLexer"):
        c = classes.get(cname)
        if c is None:
            continue
        for fn in [m for m in c.body if isinstance(m, ast.FunctionDef)]:
            matched: Set[str] = set()
            for n in ast.walk(fn):
                if isinstance(n, ast.Assign) and isinstance(n.value, ast.Call) and isinstance(n.value.func, ast.Attribute) \
                        and n.value.func.attr == "match" and ast.unparse(n.value.func.value) in ("self", "self.scanner"):
                    for t in n.targets:
                        matched |= {x.id for x in ast.walk(t) if isinstance(x, ast.Name)}
            changed = True
            while changed:
                changed = False
                for n in ast.walk(fn):
                    if isinstance(n, ast.Assign) and isinstance(n.value, ast.Name) and n.value.id in matched:
                        for t in n.targets:
                            for x in ast.walk(t):
                                if isinstance(x, ast.Name) and x.id not in matched:
                                    matched.add(x.id)
                                    changed = True
            for n in ast.walk(fn):
                if isinstance(n, ast.Call) and isinstance(n.func, ast.Attribute) and n.func.attr == "feed" and n.args:
                    nfeed += 1
                    a0 = n.args[0]
                    rep.check("R16.7", f"{cname}.{fn.name}:feed({ast.unparse(a0)[:30]})", isinstance(a0, ast.Name) and a0.id in matched,
                              f"`{ast.unparse(n)[:60]}` advances the lexer by text that did not come from self.match(..): characters are consumed "
                              "by something other than the grammar's terminals (the shipped parser accepts strings the grammar rejects, or the reverse)",
                              f"src/measured/_parser.py:{n.lineno}")
    if nfeed < 2:
        raise AnalysisError(f"_parser.py: only {nfeed} LineCounter.feed call(s) found in the lexers (R16.7 anchor moved)")
    # c
    bm = [m for m in classes["BasicLexer"].body if isinstance(m, ast.FunctionDef) and m.name == "match"]
    rets = [r for m in bm for r in ast.walk(m) if isinstance(r, ast.Return) and r.value is not None]
    okc = bool(rets) and all(isinstance(r.value, ast.Call) and ast.unparse(r.value.func) in ("self.scanner.match", "self._scanner.match") for r in rets)
    rep.check("R16.7", "BasicLexer.match", okc, "BasicLexer.match no longer returns the scanner's match", f"src/measured/_parser.py:{bm[0].lineno if bm else 0}")
    sm = [m for m in classes["Scanner"].body if isinstance(m, ast.FunctionDef) and m.name == "match"]
    oks = False
    for m in sm:
        rs = [r for r in ast.walk(m) if isinstance(r, ast.Return) and r.value is not None]
        mvars = {t.id for n in ast.walk(m) if isinstance(n, ast.Assign) and isinstance(n.value, ast.Call) and isinstance(n.value.func, ast.Attribute)
                 and n.value.func.attr == "match" for t in n.targets if isinstance(t, ast.Name)}
        oks = bool(rs) and all(isinstance(r.value, ast.Tuple) and r.value.elts and ast.unparse(r.value.elts[0]) in {f"{v}.group(0)" for v in mvars} for r in rs)
    rep.check("R16.7", "Scanner.match", oks, "Scanner.match no longer returns the text matched by a compiled terminal regex at the position",
              f"src/measured/_parser.py:{sm[0].lineno if sm else 0}")


def _strip_for_compare(node: ast.AST) -> ast.AST:
    import copy as _copy
    node = _copy.deepcopy(node)
    for n in ast.walk(node):
        if isinstance(n, (ast.FunctionDef, ast.ClassDef, ast.AsyncFunctionDef)):
            if n.body and isinstance(n.body[0], ast.Expr) and isinstance(n.body[0].value, ast.Constant) and isinstance(n.body[0].value.value, str):
                n.body = n.body[1:] or [ast.Pass()]
        if isinstance(n, (ast.FunctionDef, ast.AsyncFunctionDef)):
            n.returns = None
            for a in n.args.args + n.args.kwonlyargs + n.args.posonlyargs + [x for x in (n.args.vararg, n.args.kwarg) if x]:
                a.annotation = None
    return node


def _functions(tree: ast.AST, prefix: str = "") -> Dict[str, ast.AST]:
    out: Dict[str, ast.AST] = {}
    for n in getattr(tree, "body", []):
        if isinstance(n, (ast.FunctionDef, ast.AsyncFunctionDef)):
            out[prefix + n.name] = n
        elif isinstance(n, ast.ClassDef):
            out.update(_functions(n, prefix + n.name + "."))
    return out


def _skeleton(tree: ast.Module) -> List[Any]:
    out: List[Any] = []
    for n in tree.body:
        if isinstance(n, (ast.FunctionDef, ast.AsyncFunctionDef)):
            continue
        if isinstance(n, ast.Assign) and any(isinstance(t, ast.Name) and t.id in ("DATA", "MEMO") for t in n.targets):
            continue
        if isinstance(n, ast.ClassDef):
            rest = [x for x in n.body if not isinstance(x, (ast.FunctionDef, ast.AsyncFunctionDef, ast.ClassDef))]
            rest = [x for x in rest if not (isinstance(x, ast.Expr) and isinstance(x.value, ast.Constant))]
            out.append(("class", n.name, [ast.unparse(b) for b in n.bases], [ast.unparse(d) for d in n.decorator_list], [ast.dump(x) for x in rest]))
        elif isinstance(n, ast.Expr) and isinstance(n.value, ast.Constant):
            continue
        else:
            out.append(("stmt", ast.dump(n)))
    return out


def runtime_against_installed(rep: Report, tree: ast.Module, embedded: str, installed: str) -> None:
    """R16.9: every function of the embedded runtime is compared (AST, docstrings and annotations
    removed) with the function of the same qualified name in the installed Lark's *source*.  The two
    versions differ in a known set of functions (sa/data/lark_runtime_residue.json, recorded for this
    pair of versions); every other function must be identical - a hand edit of the generated file
    shows up as a function that left the identical set.  For any other pair of versions the rule is
    inventory only (R16.6 compares the whole text when the versions are equal)."""
    import glob
    import json as _json
    table = _json.load(open(os.path.join(os.path.dirname(os.path.dirname(__file__)), "data", "lark_runtime_residue.json")))
    try:
        import lark as _lark
        lp = os.path.dirname(_lark.__file__)
    except Exception as e:  # pragma: no cover
        raise AnalysisError(f"installed Lark not importable: {e}")
    ref: Dict[str, List[str]] = {}
    for f in sorted(glob.glob(lp + "/**/*.py", recursive=True)):
        try:
            t = ast.parse(open(f).read())
        except SyntaxError:
            continue
        for k, v in _functions(t).items():
            ref.setdefault(k, []).append(ast.dump(_strip_for_compare(v)))
    shipped = _functions(tree)
    applicable = (embedded == table["embedded"] and installed == table["installed"])
    residue = set(table["not_compared"])
    same = 0
    for k, v in sorted(shipped.items()):
        identical = ast.dump(_strip_for_compare(v)) in ref.get(k, [])
        if identical:
            same += 1
        if not applicable:
            continue
        if k in residue:
            continue
        rep.check("R16.9", f"runtime:{k}", identical,
                  f"{k} in the embedded Lark runtime is no longer identical to Lark {installed}'s {k} (it was at the pinned commit, and it is not "
                  "one of the functions that differ between the two Lark versions): the generated parser was edited by hand, so it no "
                  "longer runs the compared tables the way a parser built from the grammar does", f"src/measured/_parser.py:{v.lineno}")
    # R16.10: the residue and the skeleton against the pinned generator output
    if embedded == table["embedded"] and "digests" in table:
        import hashlib
        for k, want in sorted(table["digests"].items()):
            v = shipped.get(k)
            got = hashlib.sha256(ast.dump(_strip_for_compare(v)).encode()).hexdigest()[:24] if v is not None else "missing"
            rep.check("R16.10", f"runtime:{k}", got == want,
                      f"{k} in the embedded Lark {embedded} runtime is not what the generator emitted (the embedded version string is unchanged, so the "
                      "file was not regenerated): a hand edit of generated code", f"src/measured/_parser.py:{getattr(v, 'lineno', 0)}")
        sk = hashlib.sha256(repr(_skeleton(tree)).encode()).hexdigest()[:24]
        rep.check("R16.10", "runtime:module-and-class-skeleton", sk == table.get("skeleton_digest"),
                  "the module-level code or a class body (bases, class attributes) of the embedded runtime differs from the generator's output "
                  f"for Lark {embedded}", "src/measured/_parser.py")
    else:
        rep.rules["R16.10"].floor = 0
        rep.inventory("R16.10", {"note": f"embedded Lark {embedded}: no pinned generator output for this version"})
    rep.analysed["runtime_functions"] = {"embedded": len(shipped), "identical_to_installed": same, "residue_not_compared": len(residue),
                                         "table_applies": applicable}
    if not applicable:
        rep.inventory("R16.9", {"note": f"embedded Lark {embedded} / installed {installed}: no residue table for this pair, functions identical: {same}/{len(shipped)}"})
        r = rep.rules["R16.9"]
        r.floor = 0


def no_monkeypatching(rep: Report) -> None:
    """R16.11: the shipped parser is the module _parser.py as compared above - unless another module of the
    package rebinds its names at import time (`_parser.LexerThread = ...`), which changes every parser built
    from it afterwards without touching a byte of the generated file."""
    import glob
    n = 0
    for path in sorted(glob.glob(os.path.join(SRC, "*.py"))):
        short = os.path.basename(path)
        if short == "_parser.py":
            continue
        try:
            t = ast.parse(open(path, encoding="utf-8").read())
        except SyntaxError as e:
            raise AnalysisError(f"{rel(path)} does not parse: {e}")
        aliases = {"_parser"}
        for node in ast.walk(t):
            if isinstance(node, ast.ImportFrom):
                for a in node.names:
                    if a.name == "_parser":
                        aliases.add(a.asname or a.name)
            if isinstance(node, ast.Import):
                for a in node.names:
                    if a.name.endswith("._parser"):
                        aliases.add(a.asname or a.name)
        for node in ast.walk(t):
            tgts = node.targets if isinstance(node, ast.Assign) else ([node.target] if isinstance(node, (ast.AugAssign, ast.AnnAssign)) else
                                                                       (node.targets if isinstance(node, ast.Delete) else []))
            for tg in tgts:
                for x in ast.walk(tg):
                    if isinstance(x, ast.Attribute) and isinstance(x.ctx, (ast.Store, ast.Del)):
                        root = x.value
                        while isinstance(root, ast.Attribute):
                            root = root.value
                        if isinstance(root, ast.Name) and root.id in aliases and ast.unparse(x.value).split(".")[0] in aliases:
                            n += 1
                            rep.fail("R16.11", f"{short}:{ast.unparse(x)}", f"{short} rebinds `{ast.unparse(x)}` in the generated parser module: once the package is "
                                     "imported the shipped parser no longer runs the code that was compared with the grammar", f"{rel(path)}:{node.lineno}")
            if isinstance(node, ast.Call) and isinstance(node.func, ast.Name) and node.func.id in ("setattr", "delattr") and node.args \
                    and isinstance(node.args[0], ast.Name) and node.args[0].id in aliases:
                n += 1
                rep.fail("R16.11", f"{short}:{ast.unparse(node)[:40]}", f"{short} patches the generated parser module with {node.func.id}()", f"{rel(path)}:{node.lineno}")
        # ... or reaches into the objects the generated module hands out (the tables DATA / MEMO, the parser built from
        # them, its lexer and terminals) and changes them in place: taint from `_parser.<x>` / the module-level parser object
        roots = set(aliases)
        for st in t.body:
            if isinstance(st, (ast.Assign, ast.AnnAssign)) and getattr(st, "value", None) is not None:
                r0 = st.value
                while isinstance(r0, (ast.Attribute, ast.Call, ast.Subscript)):
                    r0 = r0.func if isinstance(r0, ast.Call) else r0.value
                if isinstance(r0, ast.Name) and r0.id in aliases:
                    for tg in (st.targets if isinstance(st, ast.Assign) else [st.target]):
                        if isinstance(tg, ast.Name):
                            roots.add(tg.id)
        for node in ast.walk(t):
            if isinstance(node, ast.ImportFrom) and (node.module or "").endswith("parsing"):
                roots |= {a.asname or a.name for a in node.names if a.name == "parser"}

        def rooted(e: ast.AST, tainted: set) -> bool:
            while isinstance(e, (ast.Attribute, ast.Call, ast.Subscript, ast.Starred)):
                e = e.func if isinstance(e, ast.Call) else e.value
            if isinstance(e, (ast.List, ast.Tuple, ast.Set)):
                return any(rooted(x, tainted) for x in e.elts)
            return isinstance(e, ast.Name) and e.id in tainted
        for fn in [x for x in ast.walk(t) if isinstance(x, (ast.FunctionDef, ast.AsyncFunctionDef))] + [t]:
            body_nodes = list(ast.walk(fn)) if fn is not t else [x for st in t.body if not isinstance(st, (ast.FunctionDef, ast.ClassDef, ast.AsyncFunctionDef)) for x in ast.walk(st)]
            tainted = set(roots)
            grew = True
            while grew:
                grew = False
                for x in body_nodes:
                    pairs = []
                    if isinstance(x, ast.Assign):
                        pairs = [(tg, x.value) for tg in x.targets]
                    elif isinstance(x, ast.AnnAssign) and x.value is not None:
                        pairs = [(x.target, x.value)]
                    elif isinstance(x, (ast.For, ast.comprehension)):
                        pairs = [(x.target, x.iter)]
                    elif isinstance(x, ast.NamedExpr):
                        pairs = [(x.target, x.value)]
                    for tg, v in pairs:
                        if rooted(v, tainted):
                            for nm in ast.walk(tg):
                                if isinstance(nm, ast.Name) and isinstance(nm.ctx, ast.Store) and nm.id not in tainted and nm.id not in roots:
                                    tainted.add(nm.id)
                                    grew = True
            for x in body_nodes:
                tg_list = x.targets if isinstance(x, (ast.Assign, ast.Delete)) else ([x.target] if isinstance(x, (ast.AugAssign, ast.AnnAssign)) else [])
                for tg in tg_list:
                    for y in (tg.elts if isinstance(tg, (ast.Tuple, ast.List)) else [tg]):
                        if isinstance(y, (ast.Attribute, ast.Subscript)) and rooted(y.value, tainted) and not (isinstance(y, ast.Attribute) and isinstance(y.value, ast.Name) and y.value.id in aliases):
                            n += 1
                            rep.fail("R16.11", f"{short}:{ast.unparse(y)[:50]}", f"{short} writes `{ast.unparse(y)[:60]}`, an object handed out by the generated parser module "
                                     "(its tables, the parser built from them, a terminal or a lexer): the running parser no longer is the one the tables "
                                     "compared with the grammar describe", f"{rel(path)}:{x.lineno}")
                if isinstance(x, ast.Call) and isinstance(x.func, ast.Attribute) and x.func.attr in ("update", "append", "extend", "insert", "pop", "remove", "clear", "setdefault", "sort", "reverse", "__setitem__", "add", "discard") \
                        and rooted(x.func.value, tainted) and not (isinstance(x.func.value, ast.Name) and x.func.value.id in tainted - roots and False):
                    n += 1
                    rep.fail("R16.11", f"{short}:{ast.unparse(x)[:50]}", f"{short} mutates `{ast.unparse(x.func.value)[:50]}`, an object handed out by the generated parser module, "
                             f"in place (.{x.func.attr})", f"{rel(path)}:{x.lineno}")
    if n == 0:
        rep.ok("R16.11", "package", note="no module assigns into measured._parser or into an object it hands out")


LANGUAGE_NEUTRAL_OPTIONS = {"transformer"}


def parser_options(rep: Report) -> None:
    """R16.12: the parser the library uses is `_parser.Parser(transformer=...)` - the generated tables run as they are.  Every
    other option of the standalone loader (postlex, lexer_callbacks, edit_terminals, propagate_positions, tree_class, ...)
    puts code between the tables and the result: a postlexer rewrites the token stream, so the library's parser accepts texts
    the grammar rejects while every byte of the generated module is still the compared one."""
    import glob
    n = 0
    for path in sorted(glob.glob(os.path.join(SRC, "*.py"))):
        if os.path.basename(path) == "_parser.py":
            continue
        t = ast.parse(open(path, encoding="utf-8").read())
        for c in ast.walk(t):
            if isinstance(c, ast.Call) and ast.unparse(c.func).split(".")[-1] in ("Parser", "Lark_StandAlone") and "_parser" in ast.unparse(c.func):
                n += 1
                extra = sorted((k.arg or "**") for k in c.keywords if k.arg not in LANGUAGE_NEUTRAL_OPTIONS)
                rep.check("R16.12", f"{os.path.basename(path)}:{ast.unparse(c.func)}", not extra and not c.args,
                          f"{os.path.basename(path)} builds the parser with {extra or 'positional arguments'}: an option other than the transformer changes which "
                          "texts are accepted or how they are read, outside the tables compared with the grammar", f"{rel(path)}:{c.lineno}")
    if n == 0:
        raise AnalysisError("no _parser.Parser(...) call found in the package (R16.12 anchor moved)")


def parser_wiring(rep: Report, tree: ast.Module) -> None:
    """R16.8: the LALR driver consults the compared tables and nothing else:
      a. the action for a token is `states[<top of state stack>][token.type]`, a miss raises UnexpectedToken;
      b. a reduction pops exactly len(rule.expansion) entries from both stacks and takes the goto from
         `states[<new top>][rule.origin.name]`;
      c. the contextual lexer picks the lexer of the parser's current state."""
    classes = {n.name: n for n in tree.body if isinstance(n, ast.ClassDef)}
    for need in ("ParserState", "ContextualLexer"):
        if need not in classes:
            raise AnalysisError(f"_parser.py: class {need} not found (R16.8 anchor moved)")
    ft = [m for m in classes["ParserState"].body if isinstance(m, ast.FunctionDef) and m.name == "feed_token"]
    if not ft:
        raise AnalysisError("_parser.py: ParserState.feed_token not found (R16.8 anchor moved)")
    fn = ft[0]
    where = f"src/measured/_parser.py:{fn.lineno}"
    tok = fn.args.args[1].arg

    def norm(x: ast.AST) -> str:
        return ast.unparse(x).replace(" ", "")
    defs = {n.targets[0].id: norm(n.value) for n in ast.walk(fn) if isinstance(n, ast.Assign) and len(n.targets) == 1 and isinstance(n.targets[0], ast.Name)}
    lookups = [n for n in ast.walk(fn) if isinstance(n, ast.Subscript) and isinstance(n.value, ast.Subscript) and isinstance(n.value.value, ast.Name)
               and defs.get(n.value.value.id, "").endswith(".states")]
    top = {k for k, v in defs.items() if v.endswith("state_stack[-1]") or v == "state_stack[-1]"} | {"state_stack[-1]", "self.state_stack[-1]"}
    act = [n for n in lookups if norm(n.slice) == f"{tok}.type"]
    rep.check("R16.8", "feed_token:action-lookup", bool(act) and all(norm(n.value.slice) in top for n in act),
              f"the action for a token is no longer read as states[top of stack][{tok}.type]", where)
    handlers = [h for t in ast.walk(fn) if isinstance(t, ast.Try) and any(a in list(ast.walk(t.body[0])) for a in act if t.body) for h in t.handlers]
    rep.check("R16.8", "feed_token:miss", bool(handlers) and all(any(isinstance(x, ast.Raise) and "UnexpectedToken" in norm(x) for x in ast.walk(h)) for h in handlers),
              "a missing table entry no longer raises UnexpectedToken (a token the grammar does not allow here would be accepted or crash)", where)
    goto = [n for n in lookups if norm(n.slice).endswith(".origin.name")]
    rep.check("R16.8", "feed_token:goto-lookup", bool(goto) and all(norm(n.value.slice) in ("state_stack[-1]", "self.state_stack[-1]") for n in goto),
              "after a reduction the next state is no longer read as states[new top][rule.origin.name]", where)
    size = [k for k, v in defs.items() if v.startswith("len(") and v.endswith(".expansion)")]
    dels = [norm(n) for n in ast.walk(fn) if isinstance(n, ast.Delete)]
    okpop = bool(size) and all(any(d == f"del{st}[-{size[0]}:]" for d in dels) for st in ("state_stack", "value_stack"))
    rep.check("R16.8", "feed_token:reduce-pops", okpop,
              "a reduction no longer pops len(rule.expansion) entries from both the state and the value stack", where)
    cl = [m for m in classes["ContextualLexer"].body if isinstance(m, ast.FunctionDef) and m.name == "lex"]
    okc = bool(cl) and any(isinstance(n, ast.Subscript) and norm(n.value) == "self.lexers" and norm(n.slice).endswith(".position") for n in ast.walk(cl[0]))
    rep.check("R16.8", "ContextualLexer.lex", okc, "the contextual lexer no longer picks self.lexers[<parser state>.position]",
              f"src/measured/_parser.py:{cl[0].lineno if cl else 0}")


def run(rep: Report) -> None:
    rep.rule("R16.11", "no module of the package rebinds names of the generated parser module", floor=1)
    rep.rule("R16.10", "the part of the embedded runtime no installed generator can reproduce (59 functions that differ between Lark versions, module "
             "and class skeleton) is the generator's pinned output while the embedded version string is unchanged", floor=60)
    rep.rule("R16.9", "embedded runtime vs installed Lark source: every function outside the recorded version-difference residue is identical", floor=150)
    rep.rule("R16.8", "embedded LALR driver wiring: actions and gotos come from the (compared) tables, reductions pop the rule's length", floor=5)
    rep.rule("R16.7", "embedded lexer wiring: input is consumed only through the scanner built from the (compared) terminal table", floor=5)
    rep.rule("R16.1", "options: parser type, lexer type and start symbols agree between grammar build, shipped artefact, "
             "Makefile flags and the start= arguments used by Unit.parse / Quantity.parse", floor=4)
    rep.rule("R16.2", "terminals: same names, pattern type / value / flags, priorities, widths; same ignore list, global "
             "regex flags, use_bytes and lexer type", floor=9)
    rep.rule("R16.3", "rules: same origin, expansion (incl. filtered tokens), alias, order and tree-shaping options", floor=15)
    rep.rule("R16.4", "LALR tables isomorphic under the renaming induced by BFS from the start states, including end "
             "states and reduce targets", floor=1)
    rep.rule("R16.12", "the library builds its parser from the generated module with the transformer only (no postlexer, callbacks or terminal editing)", floor=1)
    rep.rule("R16.5", "wiring: Parser() loads exactly DATA and MEMO, each assigned once", floor=3)
    rep.rule("R16.6", "runtime text equals lark.tools.standalone output (only when the embedded version equals the installed Lark)", armed=False)
    mk = makefile_flags()
    sh = extract_shipped()
    ref_data, ref_memo, lark_version = build_reference(starts=mk["starts"] or None)
    a = normalise(ref_data, ref_memo)
    b = normalise(sh.data, sh.memo)

    # R16.1
    rep.check("R16.1", "parser-type", a.parser_type == b.parser_type == "lalr", f"parser types differ: {a.parser_type} vs {b.parser_type}",
              "src/measured/_parser.py")
    rep.check("R16.1", "lexer-type", a.lexer[2] == b.lexer[2], f"lexer types differ: {a.lexer[2]} vs {b.lexer[2]}", "src/measured/_parser.py")
    rep.check("R16.1", "start-symbols", set(a.start) == set(b.start) == set(mk["starts"]),
              f"start symbols: grammar build {a.start}, shipped {b.start}, Makefile {mk['starts']}", "Makefile")
    # start= arguments in the package
    used: List[Tuple[str, str, int]] = []
    init = os.path.join(SRC, "__init__.py")
    tree = ast.parse(open(init, encoding="utf-8").read())
    wrappers: Dict[str, str] = {}     # a module function that forwards its own parameter as start=: name -> parameter
    for fn_ in [x for x in tree.body if isinstance(x, ast.FunctionDef)]:
        for n in ast.walk(fn_):
            if isinstance(n, ast.Call) and isinstance(n.func, ast.Attribute) and n.func.attr == "parse" and ast.unparse(n.func.value) == "parser":
                for k in n.keywords:
                    if k.arg == "start" and isinstance(k.value, ast.Name) and k.value.id in [a.arg for a in fn_.args.args]:
                        wrappers[fn_.name] = k.value.id
    for n in ast.walk(tree):
        if isinstance(n, ast.Call) and isinstance(n.func, ast.Attribute) and n.func.attr == "parse" and ast.unparse(n.func.value) == "parser":
            for k in n.keywords:
                if k.arg == "start" and isinstance(k.value, ast.Constant):
                    used.append(("__init__.py", k.value.value, n.lineno))
        if isinstance(n, ast.Call) and isinstance(n.func, ast.Name) and n.func.id in wrappers:
            fn_ = next(x for x in tree.body if isinstance(x, ast.FunctionDef) and x.name == n.func.id)
            pos = [a.arg for a in fn_.args.args].index(wrappers[n.func.id])
            val = next((k.value for k in n.keywords if k.arg == wrappers[n.func.id]), n.args[pos] if pos < len(n.args) else None)
            if isinstance(val, ast.Constant):
                used.append(("__init__.py", val.value, n.lineno))
    if not used:
        raise AnalysisError("no parser.parse(..., start=...) call found in measured/__init__.py")
    for f, s, ln in used:
        rep.check("R16.1", f"start-used:{s}", s in b.start_states, f"parser.parse(start={s!r}) but the shipped tables have no such "
                  f"start state ({sorted(b.start_states)})", f"src/measured/{f}:{ln}")
    for k in sorted(set(a.options) | set(b.options)):
        if k in ("start", "maybe_placeholders"):
            continue
        if a.options.get(k) != b.options.get(k):
            rep.fail("R16.1", f"option:{k}", f"Lark option {k}: grammar build {a.options.get(k)!r}, shipped {b.options.get(k)!r}",
                     "src/measured/_parser.py")
    # R16.2 terminals
    for name in sorted(set(a.terminals) | set(b.terminals)):
        x, y = a.terminals.get(name), b.terminals.get(name)
        rep.check("R16.2", f"terminal:{name}", x == y,
                  f"terminal {name}: grammar gives {x}, shipped parser has {y}", "src/measured/measured.lark")
    rep.check("R16.2", "lexer-conf", a.ignore == b.ignore and a.lexer == b.lexer,
              f"ignore/flags/bytes/lexer differ: {a.ignore, a.lexer} vs {b.ignore, b.lexer}", "src/measured/_parser.py")
    # R16.3 rules
    sa_, sb_ = set(a.rules), set(b.rules)
    for r in sorted(sa_ | sb_, key=repr):
        txt = f"{r[0]} -> {' '.join(s[0] for s in r[1]) or 'ε'}" + (f" -> {r[2]}" if r[2] else "")
        where = "grammar only" if r not in sb_ else ("shipped parser only" if r not in sa_ else "")
        rep.check("R16.3", f"rule:{txt}", r in sa_ and r in sb_, f"rule `{txt}` (order {r[3]}, options {r[4]}) is in the {where}",
                  "src/measured/measured.lark")
    # R16.4 automaton
    ok, diffs, mapping = isomorphism(a, b)
    rep.check("R16.4", "lalr-automaton", ok and len(a.states) == len(b.states),
              f"LALR automata differ ({len(a.states)} vs {len(b.states)} states): {diffs[:3]}", "src/measured/_parser.py",
              note={"states": len(a.states), "mapped": len(mapping)})
    # R16.5 wiring
    rep.check("R16.5", "Parser()", sh.parser_func_ok, f"Parser() is not `return Lark._load_from_dict(DATA, MEMO, **kwargs)`: {sh.parser_func_text[:120]}",
              "src/measured/_parser.py")
    for nm in ("DATA", "MEMO"):
        rep.check("R16.5", f"assigned-once:{nm}", sh.assignments.get(nm) == 1, f"{nm} is assigned or item-assigned {sh.assignments.get(nm)} times",
                  "src/measured/_parser.py")
    lexer_wiring(rep, sh.tree)
    parser_wiring(rep, sh.tree)
    no_monkeypatching(rep)
    parser_options(rep)
    runtime_against_installed(rep, sh.tree, str(sh.version), str(lark_version))
    # R16.6
    rep.inventory("R16.6", {"embedded_lark": sh.version, "installed_lark": lark_version,
                            "compared": sh.version == lark_version,
                            "note": "versions differ: the embedded Lark runtime is the stated trusted base"})
    n_trans = sum(len(r) for r in a.states.values())
    rep.extra.update({
        "programs": 2,
        "disagreements_checked": len(a.terminals) + len(a.rules) + n_trans,
        "translation": {"source": "src/measured/measured.lark", "target": "src/measured/_parser.py (DATA, MEMO)",
                        "terminals": len(a.terminals), "rules": len(a.rules), "states": len(a.states),
                        "table_entries": n_trans, "state_mapping": {str(k): v for k, v in sorted(mapping.items())},
                        "fields_not_compared": sorted(set(a.skipped_fields) | set(b.skipped_fields))},
    })
    rep.analysed.update({"makefile": mk, "start_arguments": used})
    rep.trust(f"the Lark runtime embedded in _parser.py (version {sh.version}); Lark {lark_version} as the grammar compiler")
    rep.not_decided.append("behaviour of the embedded runtime itself (no reference copy of that version offline)")
    rep.not_decided.append("differential parsing of inputs: a different technique family, not used")
