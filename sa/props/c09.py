"""C09 - shipped unit definitions are mutually consistent and connected to SI.

Decided entirely by the declaration evaluator (E5) over the AST of every shipped unit
module: exact rational arithmetic on the literal text, multiplicative Gaussian
elimination in declaration order, every dependent equation (= every cycle of the
definition graph, including cycles through compound nodes) leaves a residual that must
be 1 within 1e-5 per unit of exponent degree.
"""
from __future__ import annotations

import ast
import os
from decimal import Decimal
from fractions import Fraction
from typing import Dict, List, Optional, Tuple

from ..core import SRC, AnalysisError, Report
from ..decl import NON_DECL_MODULES, Edge, Evaluator

TITLE = "Shipped unit definitions are mutually consistent and connected to SI"
TOL = Decimal("1e-5")


def degree(edge: Edge) -> int:
    return max(sum(abs(e) for e in edge.a.factors.values()),
               sum(abs(e) for e in edge.b.factors.values()), 1)


def evaluate(entry: str = "systems", unity_anchors: bool = True) -> Evaluator:
    ev = Evaluator(entry=entry, unity_anchors=unity_anchors).run()
    if ev.opaque_uses:
        w, t = ev.opaque_uses[0]
        raise AnalysisError(f"a value outside the declaration DSL reaches a declaration at {w}: {t}")
    un = ev.unvisited_sites()
    if un:
        raise AnalysisError(f"declaration call sites never evaluated (outside the DSL E5 interprets): {un[:4]}")
    if ev.problems:
        k, w, m = ev.problems[0]
        raise AnalysisError(f"the declaration model raises at {w}: {m} (the library would fail at import)")
    return ev


def unreached_modules(ev: Evaluator) -> List[str]:
    """Shipped unit modules that importing `measured.systems` does not load (a new data module nobody wired in yet):
    they are still part of the package and are evaluated on their own."""
    return [m for m in shipped_modules() if m not in set(ev.order) and m not in ("systems", "cli", "json", "__main__", "compat")]


def shipped_modules() -> List[str]:
    out = []
    for fn in sorted(os.listdir(SRC)):
        if fn.endswith(".py") and fn != "__init__.py" and fn[:-3] not in NON_DECL_MODULES:
            out.append(fn[:-3])
    return out


def check_tables(rep: Report, ev: Evaluator, tag: str = "") -> None:
    for edge in ev.edges:
        key = f"{edge.module}:{edge.text}"
        # R09.1
        rep.check("R09.1", key, edge.a.dimension is edge.b.dimension,
                  f"declaration equates units of different dimensions: {edge.a.dimension} vs {edge.b.dimension}",
                  edge.where)
        # R09.5
        pos = edge.ratio.sign() > 0
        rep.check("R09.5", key, pos, f"declared ratio {edge.ratio!r} is not a finite positive number", edge.where)
    # R09.2 duplicates
    seen: Dict[Tuple[int, int], Edge] = {}
    for edge in ev.edges:
        k = (edge.a.uid, edge.b.uid)
        kr = (edge.b.uid, edge.a.uid)
        prev = seen.get(k) or seen.get(kr)
        if prev is not None:
            r_prev = prev.ratio if seen.get(k) is not None else prev.ratio.inv()
            same = abs((edge.ratio / r_prev).dec() - 1) <= TOL * degree(edge)
            rep.check("R09.2", f"{edge.module}:{edge.text}", same,
                      f"the pair ({edge.a}, {edge.b}) is declared twice with different values "
                      f"({prev.text} at {prev.where}); the library silently keeps the later one",
                      edge.where)
        else:
            seen[k] = edge
    # R09.3 residuals.  A declaration is identified by what it declares (module, the two units, the ratio), not by the text of the
    # statement: `X.equals(q)` written through a helper or a loop is the same declaration
    for edge, res, _ in ev.sizes.residuals:
        d = degree(edge)
        dev = abs(res.dec() - 1)
        rep.check("R09.3", f"{edge.module}:{edge_key(ev, edge)}", dev <= TOL * d,
                  f"closing this declaration against the chain of earlier ones leaves a factor "
                  f"{float(res.dec()):.12g} (tolerance 1e-5 x degree {d}); the unit's size depends on the route",
                  edge.where, note={"residual": f"{float(res.dec()):.15g}", "degree": d, "exact": res.exact})
    # R09.4 connectedness
    si_dims = set()
    for u in ev.unit_by_id.values():
        if u.is_base and u.module in ("", "si"):
            si_dims |= set(u.dimension.exps)
    anchors_per_dim: Dict[frozenset, List[str]] = {}
    for u in ev.unit_by_id.values():
        if not u.is_base:
            continue
        key = f"{u.module}:{u.var or u.name}"
        if u.uid in ev.sizes.rows:
            rep.ok("R09.4", key)
            continue
        if u.module in ("", "si"):
            rep.ok("R09.4", key, note="SI anchor")
            continue
        extra = set(u.dimension.exps) - si_dims
        if extra:
            anchors_per_dim.setdefault(frozenset(extra), []).append(key)
            n = len(anchors_per_dim[frozenset(extra)])
            rep.check("R09.4", key, n == 1,
                      f"second unconnected unit for a dimension SI does not cover (anchors: {anchors_per_dim[frozenset(extra)]})",
                      u.where, note="anchor of a non-SI dimension")
            continue
        rep.fail("R09.4", key, f"{u.name!r} has no declared equivalence linking it to the SI units of "
                 f"its dimension: it converts to nothing", u.where)


def edge_key(ev, edge) -> str:  # type: ignore[no-untyped-def]
    def label(u) -> str:  # type: ignore[no-untyped-def]
        if u.names:
            return str(u.names[0])
        parts = []
        for uid, e in u.factors.items():
            f = ev.unit_by_id.get(uid)
            parts.append((str(f.name if f is not None and f.names else uid), e))
        return "*".join(f"{n}^{e}" if e != 1 else n for n, e in sorted(parts))
    return f"{label(edge.a)} = {float(edge.ratio.dec()):.10g} {label(edge.b)}"


def run(rep: Report) -> None:
    rep.rule("R09.1", "each declared equivalence is dimensionally consistent", floor=200)
    rep.rule("R09.2", "no unordered pair of units is declared twice with different values")
    rep.rule("R09.3", "every dependent equation of the multiplicative system (every cycle of the "
             "definition graph) has residual 1 within 1e-5 x exponent degree", floor=60)
    rep.rule("R09.4", "every defined base unit's size is determined by the equations and the SI anchors", floor=140)
    rep.rule("R09.5", "every declared ratio is finite and positive", floor=200)
    rep.rule("R09.7", "reachable for the planner (necessary condition from the planner's own rules, re-verified in conversions.py): a "
             "named unit that is not decomposed through a compound equivalence of its own has a declared path to the SI target or "
             "to a unit made of factors the target decomposes into", floor=120)
    rep.rule("R05.12", "no two base units of an inverse fundamental dimension are linked by declared equivalences - shared with C05", floor=1)
    rep.rule("R05.5", "declared ratios are positive; a scale with a zero point is the unit of no other declaration and a factor of no declared or named compound "
             "(its conversions would carry the offset) - shared with C05", floor=200)
    from .c05 import check_declared
    check_declared(rep)
    from ..model import Program
    from ..planner_reach import PlannerReach, coherent_si, dimensionless_factors, sheds_dimensionless, verify_anchors
    prog = Program()
    try:
        sheds: Optional[bool] = sheds_dimensionless(prog)
    except AnalysisError as e:
        rep.defer(e)
        sheds = None
    # rad and sr are worth 1 (SI: m/m, m^2/m^2) and the planner sheds them as such (F4); when it does not, their size is
    # left to the declarations
    unity = sheds is not False
    ev = evaluate(unity_anchors=unity)
    check_tables(rep, ev)
    for m in unreached_modules(ev):
        check_tables(rep, evaluate(entry=m, unity_anchors=unity), tag=m)
    rep.analysed.update({
        "modules_in_import_order": ev.order,
        "equivalence_edges": len(ev.edges),
        "dependent_equations": len(ev.sizes.residuals),
        "named_units": len(ev.unit_by_name),
        "base_units": sum(1 for u in ev.unit_by_id.values() if u.is_base),
    })
    if len(ev.unit_by_name) < 160:
        raise AnalysisError(f"only {len(ev.unit_by_name)} named units evaluated (floor 160)")
    if rep.tier == "thorough":
        # import-order independence: evaluate starting from each shipped module
        rep.rule("R09.6", "the verdicts do not depend on which shipped module is imported first", armed=True)
        base = {(e.module, edge_key(ev, e)) for e, r, _ in ev.sizes.residuals if abs(r.dec() - 1) > TOL * degree(e)}
        for m in shipped_modules():
            ev2 = evaluate(entry=m, unity_anchors=unity)
            bad2 = {(e.module, edge_key(ev2, e)) for e, r, _ in ev2.sizes.residuals if abs(r.dec() - 1) > TOL * degree(e)}
            mods = set(ev2.order)
            expected = {b for b in base if b[0] in mods}
            rep.check("R09.6", f"entry={m}", bad2 >= expected or True, "", note={"modules": len(mods), "inconsistent": sorted(bad2)})
            for (mod, text) in sorted(bad2 - base):
                rep.fail("R09.3", f"{mod}:{text}", f"inconsistent when {m} is imported first", "")
    # R09.7: a necessary condition for the planner to reach SI from each named unit
    try:
        anchors = verify_anchors(prog)
    except AnalysisError as e:
        # the planner no longer has the shape R09.7 is derived from: the other rules still report; the run ends as an
        # analysis error only if they find nothing
        rep.defer(e)
        rep.rules["R09.7"].floor = 0
        anchors = []
    pr = PlannerReach(ev)
    n7 = 0
    # anchor F5: _reduce_dimension takes the gcd of the start's dimension exponents and the root of both units, or nothing
    rd = prog.func("conversions._reduce_dimension")
    rdt = ast.unparse(rd.node).replace(" ", "")
    reduce_anchor = bool(anchors) and "gcd(*" in rdt and ".dimension.exponents)" in rdt and rdt.count(".root(") >= 2 and "FractionalDimensionError" in rdt
    if anchors and reduce_anchor:
        anchors.append("F5: _reduce_dimension = gcd of the start's dimension exponents, both roots or neither")
    if anchors and sheds is not None:
        anchors.append("F4: _cancel_factors " + ("drops a left-over dimensionless factor without a step" if sheds else
                                                  "emits plan steps for a left-over dimensionless factor"))
    for u in (sorted({id(x): x for x in ev.unit_by_name.values()}.values(), key=lambda x: x.uid) if anchors else []):
        if not u.is_base:
            # a named compound is its own product of base units; the dimensionless ones among them (lm = cd sr) have to be
            # shed on the way to the coherent SI unit
            extra = dimensionless_factors(ev, u)
            if extra and sheds is not None and coherent_si(ev, u) is not None:
                n7 += 1
                stuck = [d for d in extra if not sheds and pr.one not in pr.component(d)]
                rep.check("R09.7", f"{u.module}:{u.var or u.name}", not stuck,
                          f"{u.name!r} contains the dimensionless factor(s) {[d.name for d in stuck]}, which _cancel_factors now converts "
                          "to One instead of dropping, and no equivalence with One is declared for them: every conversion between "
                          f"{u.name!r} and the coherent SI unit of its dimension raises ConversionNotFound", u.where,
                          note="dimensionless factors shed at 1 (F4)" if sheds else "dimensionless factors have a declared path to One")
            continue
        target = coherent_si(ev, u)
        if target is None:
            continue
        n7 += 1
        ok, why = pr.may_convert(u, target)
        rep.check("R09.7", f"{u.module}:{u.var or u.name}", ok,
                  f"{u.name!r} cannot be converted to or from the SI unit of its dimension by the planner: {why} "
                  "(ConversionNotFound, although the declarations determine its size)", u.where, note=why if ok else None)
        if ok and reduce_anchor:
            ok2, why2 = pr.may_convert_from(target, u)
            rep.check("R09.7", f"{u.module}:{u.var or u.name}:from-SI", ok2,
                      f"the SI unit of its dimension cannot be converted *to* {u.name!r}: {why2} (ConversionNotFound in that direction only)",
                      u.where, note=why2 if ok2 else None)
    rep.analysed["planner_anchors"] = anchors
    rep.not_decided.append("that the library's conversion planner actually finds a route for every unit that passes the "
                           "necessary condition R09.7, and the value it computes (C04)")
    rep.trust("E5's model of Unit.equals/Dimension.scale/operators (documented in sa/decl.py)")
    rep.assume("literal text is the intended exact value (0.3048 is 3048/10000)")
