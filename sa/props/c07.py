"""C07 - impossible conversions fail only with ConversionNotFound, with or without -O."""
from __future__ import annotations

import ast
from typing import Dict, List, Optional, Set, Tuple

from ..calls import Reach, Resolver
from ..cfg import CFG
from ..core import AnalysisError, Report
from ..effects import ExcFlow, ExcHierarchy, exc_name, handler_yields, handlers_around, raise_sites
from ..model import FuncInfo, Program

TITLE = "Impossible conversions fail only with ConversionNotFound, with or without -O"

CONVERT_ENTRIES = ["conversions.convert", "Quantity.in_unit", "Quantity.__add__", "Quantity.__sub__"]
COMPARE_ENTRIES = ["Quantity.__eq__", "Quantity.__lt__"]
ALLOWED = "ConversionNotFound"


def planner_zone(prog: Program, f: str) -> bool:
    fi = prog.functions[f]
    return fi.module == "conversions" or f in CONVERT_ENTRIES + COMPARE_ENTRIES


def recursion_guard(rep: Report, prog: Program, resolver: Resolver) -> None:
    fi = prog.func("conversions._find_path_recursive")
    fn = fi.node
    cfg = CFG(fn)
    dom = cfg.dominators()
    params = fi.params()
    recs = [n for n in ast.walk(fn) if isinstance(n, ast.Call) and isinstance(n.func, ast.Name) and n.func.id == fi.name]
    if not recs:
        raise AnalysisError("_find_path_recursive no longer recurses (R07.4 anchor moved)")
    vis = None
    for p in params:
        ann = next((a.annotation for a in fn.args.args + fn.args.kwonlyargs if a.arg == p), None)
        if ann is not None and "Set" in ast.unparse(ann):
            vis = p
    if vis is None:
        rep.fail("R07.4", "_find_path_recursive:visited", "no visited-set parameter", fi.where())
        return
    tests = [n for n in cfg.stmt_nodes() if n.kind == "test" and isinstance(n.ast, ast.If)
             and ast.unparse(n.ast.test).replace(" ", "") == f"{params[0]}in{vis}"
             and n.ast.body and isinstance(n.ast.body[-1], ast.Return)]
    adds = [n for n in cfg.stmt_nodes() if isinstance(n.ast, ast.Expr) and isinstance(n.ast.value, ast.Call)
            and ast.unparse(n.ast.value.func) == f"{vis}.add" and ast.unparse(n.ast.value.args[0]) == params[0]]
    for i, c in enumerate(recs):
        cn = cfg.node_of(c)
        ok = cn is not None and any(t.nid in dom.get(cn, set()) for t in tests) and any(a.nid in dom.get(cn, set()) for a in adds)
        passes = any(ast.unparse(k.value) == vis for k in c.keywords) or any(ast.unparse(a) == vis for a in c.args)
        rep.check("R07.4", f"_find_path_recursive:call#{i + 1}", ok and passes,
                  "the recursive search is not dominated by the visited-set test-and-add on its start unit (or does not pass "
                  "the same visited set on): cyclic definitions recurse without bound -> RecursionError", fi.where(c))
    # created per top-level query
    for q, f2 in prog.functions.items():
        for n in ast.walk(f2.node):
            if isinstance(n, ast.Call) and isinstance(n.func, ast.Name) and n.func.id == fi.name and q != fi.qual:
                fresh = any(k.arg == vis and isinstance(k.value, ast.Call) and ast.unparse(k.value.func) == "set" and not k.value.args
                            for k in n.keywords) or (len(n.args) >= 3 and ast.unparse(n.args[2]) == "set()")
                rep.check("R07.4", f"{q}:fresh-visited", fresh, f"{q} does not start the search with a fresh visited set", f2.where(n))
    for a in fn.args.defaults + fn.args.kw_defaults:
        if a is not None and isinstance(a, (ast.Call, ast.Set, ast.List, ast.Dict)):
            rep.fail("R07.4", "_find_path_recursive:mutable-default", "visited has a mutable default: shared across queries", fi.where())


def _sccs(g: Dict[str, Set[str]]) -> List[List[str]]:
    """Strongly connected components with a cycle (size > 1, or a self loop); iterative Tarjan."""
    index: Dict[str, int] = {}
    low: Dict[str, int] = {}
    on: Set[str] = set()
    stack: List[str] = []
    out: List[List[str]] = []
    counter = [0]
    for root in sorted(g):
        if root in index:
            continue
        work = [(root, iter(sorted(g[root])))]
        index[root] = low[root] = counter[0]
        counter[0] += 1
        stack.append(root)
        on.add(root)
        while work:
            v, it = work[-1]
            advanced = False
            for w in it:
                if w not in index:
                    index[w] = low[w] = counter[0]
                    counter[0] += 1
                    stack.append(w)
                    on.add(w)
                    work.append((w, iter(sorted(g[w]))))
                    advanced = True
                    break
                elif w in on:
                    low[v] = min(low[v], index[w])
            if advanced:
                continue
            work.pop()
            if work:
                low[work[-1][0]] = min(low[work[-1][0]], low[v])
            if low[v] == index[v]:
                comp = []
                while True:
                    w = stack.pop()
                    on.discard(w)
                    comp.append(w)
                    if w == v:
                        break
                if len(comp) > 1 or v in g[v]:
                    out.append(comp)
    return out


_PURE_CALLS = {"isinstance", "issubclass", "len", "all", "any", "callable", "hasattr", "type", "abs", "min", "max", "sum", "bool", "int", "float",
               "str", "repr", "tuple", "list", "set", "frozenset", "dict", "sorted", "id", "getattr", "round", "math.isfinite", "math.isnan",
               "math.isclose", "math.isinf"}


def effect_free_asserts(rep: Report, prog: Program, resolver: Resolver, rid: str) -> None:
    """`python -O` deletes assert statements - with everything their test does.  An assert whose test binds a name
    (`assert isinstance(x := f(..), T)`), mutates something (`assert table.pop(k) == 0`) or calls a function of the
    package that writes shared state (`assert self._anchor(unit, zero)`) makes the library compute something else under
    -O: whichever property the computation serves then holds in one of the two configurations only."""
    from ..effects import writes_in
    n = 0
    for q, fi in sorted(prog.functions.items()):
        if fi.module in ("hypothesis", "pytest", "_parser"):
            continue
        for a in Resolver._own_nodes(fi.node):
            if not isinstance(a, ast.Assert):
                continue
            n += 1
            why = ""
            where: ast.AST = a
            for x in ast.walk(a.test):
                if isinstance(x, ast.NamedExpr):
                    why, where = f"binds `{x.target.id}` inside the test", x
                    break
                if isinstance(x, (ast.Await, ast.Yield, ast.YieldFrom)):
                    why, where = "suspends inside the test", x
                    break
                if isinstance(x, ast.Call):
                    txt = ast.unparse(x.func)
                    if txt in _PURE_CALLS:
                        continue
                    if isinstance(x.func, ast.Attribute) and x.func.attr in MUT_METHODS:
                        why, where = f"calls the mutator `{txt}`", x
                        break
                    targets = [t for cs in resolver.callsites(q) if cs.node is x for t in cs.targets]
                    for t in targets:
                        sub = Reach(resolver, [t])
                        # interning a value the test computes (`assert a * b is c`) is invisible: the intern tables do not count
                        ws = [w for g in sub.reached if prog.functions[g].module not in ("hypothesis", "pytest")
                              for w in writes_in(prog, resolver, g) if sub.feasible_node(g, w.node)
                              and w.location.split(".")[-1] not in ("_known",) and not w.location.startswith("attr:")]
                        if ws:
                            why, where = f"calls {t}, which writes {sorted({w.location for w in ws})[:3]}", x
                            break
                    if why:
                        break
            rep.check(rid, f"{q}:{ast.unparse(a.test)[:50]}", not why,
                      f"the assert in {q} {why}: under `python -O` the statement - and that effect - is gone, so the function computes "
                      "something else in optimised mode", fi.where(where))
    if n == 0:
        rep.ok(rid, "package", note="no assert statement in the package")


MUT_METHODS = {"pop", "popitem", "append", "extend", "insert", "remove", "clear", "update", "setdefault", "add", "discard", "sort", "reverse",
               "cache_clear", "__setitem__", "__delitem__"}


def run(rep: Report) -> None:
    prog = Program()
    resolver = Resolver(prog)
    rep.rule("R07.1", "no assert statement and no __debug__ reference on a feasible arm of any function reachable from "
             "convert / in_unit / + / - / == / < (also the whole -O argument: -O changes only asserts, __debug__ and docstrings)", floor=40)
    rep.rule("R07.2", "explicit-raise closure: exception classes that may escape the conversion entry points through raise "
             "statements are within {ConversionNotFound}; none escapes the comparison entries; builtin raises are armed in the "
             "planner zone (conversions.py + the entry methods)", floor=6)
    rep.rule("R07.2i", "inventory: raises of builtin classes in algebra/formatting code reachable from the entries", armed=False)
    rep.rule("R07.3", "the handlers in Quantity.__eq__/__lt__ catch exactly ConversionNotFound and return NotImplemented", floor=2)
    rep.rule("R07.4", "_find_path_recursive is guarded by a per-query visited set (test, add, pass on)", floor=2)
    rep.rule("R07.7", "_splat puts every factor of the unit on the table (a skipped factor makes impossible conversions succeed)", floor=1)
    rep.rule("R07.8", "Measurement's comparison methods do not call in_unit/convert outside a ConversionNotFound handler", floor=1)
    rep.rule("R07.6", "every cycle of the reachable call graph contains a function whose recursion is bounded for a stated reason (visited set, "
             "one-step conversion, caught formatting error): no unbounded mutual recursion between operators", floor=3)
    rep.rule("R07.9", "every assert in the package is free of effects: no binding, no mutator, no call that writes shared state inside its test "
             "(python -O removes the statement with everything it does)", floor=1)
    rep.rule("R07.11", "no comparison method answers by asking the mirrored comparison of the same operands swapped (re-entered when the other side returns NotImplemented)", floor=5)
    rep.rule("R07.10", "where _cancel_factors pops under a dimension and under its inverse, it tests that the two are different keys (Number is its own inverse)", floor=1)
    rep.rule("R07.5", "planner zone: no reduce() without initialiser over a possibly empty sequence; no true division by "
             "something derived from the converted magnitude; no type errors reported by mypy", floor=3)
    rep.rule("R07.5i", "inventory: partial operations in the reachable set (subscripts, pop, remove, reduce, division)", armed=False)

    entries = CONVERT_ENTRIES + COMPARE_ENTRIES
    reach = Reach(resolver, entries)
    if len(reach.reached) < 40:
        raise AnalysisError(f"only {len(reach.reached)} functions reachable from the conversion entry points (floor 40)")
    if "Unit.parse" in reach.reached or any(f.startswith("parsing.") for f in reach.reached):
        raise AnalysisError("the parser is reachable from the conversion path: call-site specialisation regressed")
    # R07.1
    for f in sorted(reach.reached):
        fi = prog.functions[f]
        bad: List[ast.AST] = []
        from ..calls import Resolver as _R
        for n in _R._own_nodes(fi.node):
            if isinstance(n, ast.Assert) and reach.feasible_node(f, n):
                bad.append(n)
            if isinstance(n, ast.Name) and n.id == "__debug__":
                bad.append(n)
        if not bad:
            rep.ok("R07.1", f)
        for n in bad:
            what = f"assert {ast.unparse(n.test)[:60]}" if isinstance(n, ast.Assert) else "__debug__"
            rep.fail("R07.1", f"{f}:{what}",
                     f"`{what}` on the conversion path ({' -> '.join(reach.path_to(f)[-4:])}): AssertionError can escape from "
                     "converting/adding/comparing, and under -O the statement (with any side effect in it) disappears",
                     fi.where(n))
    # R07.2
    hier = ExcHierarchy(prog)
    flow = ExcFlow(prog, resolver, reach, hier)
    builtin_names = set(hier.parent) - {c.name for c in prog.classes.values()}
    for e in CONVERT_ENTRIES:
        esc = flow.escapes[e]
        bad_pkg = {x: rs for x, rs in esc.items() if x not in builtin_names and x != ALLOWED and x != "AssertionError"}
        bad_zone = {x: rs for x, rs in esc.items() if x in builtin_names and x != "AssertionError" and planner_zone(prog, rs.func)}
        for x, rs in sorted({**bad_pkg, **bad_zone}.items()):
            fi = prog.functions[rs.func]
            rep.fail("R07.2", f"{e}<-{rs.func}:{x}", f"{x} raised in {rs.func} can escape {e}: conversion may fail with something "
                     f"other than ConversionNotFound ({' -> '.join(reach.path_to(rs.func)[-4:])})", fi.where(rs.node))
        if not bad_pkg and not bad_zone:
            rep.ok("R07.2", e, note=sorted(esc))
    for e in COMPARE_ENTRIES:
        esc = flow.escapes[e]
        bad = {x: rs for x, rs in esc.items() if x != "AssertionError" and (x not in builtin_names or planner_zone(prog, rs.func))}
        for x, rs in sorted(bad.items()):
            fi = prog.functions[rs.func]
            rep.fail("R07.2", f"{e}<-{rs.func}:{x}", f"{x} raised in {rs.func} can escape {e}: a comparison must report inequality "
                     "or NotImplemented, not raise", fi.where(rs.node))
        if not bad:
            rep.ok("R07.2", e, note=sorted(esc))
    inv: Dict[str, List[str]] = {}
    for f in sorted(reach.reached):
        for rs in raise_sites(prog, f):
            if rs.kind == "raise" and rs.exc in builtin_names and not planner_zone(prog, f):
                inv.setdefault(f, []).append(f"{rs.exc}{'' if reach.feasible_node(f, rs.node) else ' (infeasible here: guard contradicts call sites)'}")
    for f, xs in inv.items():
        rep.inventory("R07.2i", {"function": f, "raises": xs})
    # R07.3
    for q in COMPARE_ENTRIES:
        fi = prog.func(q)
        hs = [n for n in ast.walk(fi.node) if isinstance(n, ast.ExceptHandler)]
        if not hs:
            rep.fail("R07.3", f"{q}:handler", f"{q} has no handler for ConversionNotFound: it escapes ==/< instead of yielding "
                     "NotImplemented", fi.where())
        for h in hs:
            names = [exc_name(x) for x in (h.type.elts if isinstance(h.type, ast.Tuple) else [h.type])] if h.type is not None else ["<bare>"]
            ret_ok = handler_yields(fi.node, h)
            rep.check("R07.3", f"{q}:except {','.join(names)}", names == [ALLOWED] and ret_ok,
                      f"handler catches {names} and {'returns NotImplemented' if ret_ok else 'does not return NotImplemented'}: "
                      "a broader clause turns planner crashes into False, a narrower one lets ConversionNotFound escape", fi.where(h))
    # R07.4
    recursion_guard(rep, prog, resolver)
    from .c09 import evaluate
    ev = evaluate()
    nodes = {e.a.uid for e in ev.edges} | {e.b.uid for e in ev.edges}
    rep.check("R07.4", "declared-graph-size", len(nodes) + 100 < 1000,
              f"the declared equivalence graph has {len(nodes)} nodes: a simple path may exceed the default recursion limit", "")
    # R07.6: recursion
    graph: Dict[str, Set[str]] = {f: set() for f in reach.reached}
    for f in reach.reached:
        for cs in reach.sites.get(f, []):
            for t in cs.targets:
                if t in graph:
                    graph[f].add(t)
    anchors = {
        "conversions._find_path_recursive": "per-query visited set (R07.4)",
        "Quantity.__eq__": "recurses once, on the operand converted into the other's unit (same unit: magnitudes are compared)",
        "Quantity.__lt__": "recurses once, on the operand converted into the other's unit (same unit: magnitudes are compared)",
        "formatting.unit_str": "error-message formatting; Prefix.root's FractionalDimensionError is caught by the formatter",
    }
    for comp in _sccs(graph):
        names = sorted(comp)
        why = [anchors[a] for a in names if a in anchors]
        key = "cycle:" + "+".join(n_.split(".")[-1] if len(names) > 3 else n_ for n_ in names[:4])
        rep.check("R07.6", key, bool(why),
                  f"{names[:5]} call each other (directly or through operator dispatch) with no bound this analysis knows: when neither direction "
                  "makes progress the recursion ends in RecursionError, not ConversionNotFound", prog.functions[names[0]].where(),
                  note=why[0] if why else None)
    # R07.5
    n_reduce = n_div = 0
    for f in sorted(reach.reached):
        fi = prog.functions[f]
        if not planner_zone(prog, f):
            continue
        cfg = None
        for n in ast.walk(fi.node):
            if isinstance(n, ast.Call) and isinstance(n.func, ast.Name) and n.func.id == "reduce" and len(n.args) == 2:
                n_reduce += 1
                seq = n.args[1]
                names = {x.id for x in ast.walk(seq) if isinstance(x, ast.Name)}
                # a list built element for element from another one (no filter) is empty exactly when that one is
                for _ in range(3):
                    for d_ in ast.walk(fi.node):
                        if isinstance(d_, ast.Assign) and len(d_.targets) == 1 and isinstance(d_.targets[0], ast.Name) and d_.targets[0].id in names \
                                and isinstance(d_.value, (ast.ListComp, ast.GeneratorExp)) and len(d_.value.generators) == 1 and not d_.value.generators[0].ifs:
                            names |= {x.id for x in ast.walk(d_.value.generators[0].iter) if isinstance(x, ast.Name)}
                        # ... as is `L = []` filled by `for x in S: L.append(..)` (one unconditional append per element)
                        if isinstance(d_, ast.For) and not d_.orelse and len(d_.body) == 1 and isinstance(d_.body[0], ast.Expr) \
                                and isinstance(d_.body[0].value, ast.Call) and isinstance(d_.body[0].value.func, ast.Attribute) \
                                and d_.body[0].value.func.attr == "append" and isinstance(d_.body[0].value.func.value, ast.Name) \
                                and d_.body[0].value.func.value.id in names:
                            lname = d_.body[0].value.func.value.id
                            other_fill = [x for x in ast.walk(fi.node) if isinstance(x, ast.Call) and isinstance(x.func, ast.Attribute)
                                          and isinstance(x.func.value, ast.Name) and x.func.value.id == lname and x.func.attr in ("pop", "remove", "clear")]
                            if not other_fill:
                                names |= {x.id for x in ast.walk(d_.iter) if isinstance(x, ast.Name)}
                if isinstance(seq, (ast.ListComp, ast.GeneratorExp)) and len(seq.generators) == 1 and not seq.generators[0].ifs:
                    names |= {x.id for x in ast.walk(seq.generators[0].iter) if isinstance(x, ast.Name)}
                cfg = cfg or CFG(fi.node)
                dom = cfg.dominators()
                cn = cfg.node_of(n)
                guarded = False
                for t in cfg.stmt_nodes():
                    if t.kind == "test" and isinstance(t.ast, ast.If) and cn is not None and t.nid in dom.get(cn, set()):
                        tt = t.ast.test
                        if isinstance(tt, ast.UnaryOp) and isinstance(tt.op, ast.Not) and isinstance(tt.operand, ast.Name) \
                                and tt.operand.id in names and t.ast.body and isinstance(t.ast.body[-1], (ast.Continue, ast.Return, ast.Raise)):
                            guarded = True
                rep.check("R07.5", f"{f}:reduce({ast.unparse(seq)[:40]})", guarded,
                          f"reduce() without initialiser over `{ast.unparse(seq)[:50]}` is not dominated by a non-emptiness test: "
                          "TypeError on an empty sequence", fi.where(n))
            if isinstance(n, ast.BinOp) and isinstance(n.op, ast.Div) or (isinstance(n, ast.Call) and isinstance(n.func, ast.Name) and n.func.id == "_div" and len(n.args) == 2):
                den = n.right if isinstance(n, ast.BinOp) else n.args[1]
                if f == "conversions.convert":
                    n_div += 1
                    dn = {x.id for x in ast.walk(den) if isinstance(x, ast.Name)} | {x.attr for x in ast.walk(den) if isinstance(x, ast.Attribute)}
                    rep.check("R07.5", f"{f}:{ast.unparse(n)[:40]}", "magnitude" not in dn,
                              f"`{ast.unparse(n)[:60]}` divides by something derived from the converted magnitude: "
                              "ZeroDivisionError for a zero quantity", fi.where(n))
                rep.inventory("R07.5i", {"function": f, "division": ast.unparse(n)[:60]})
    # first element of a filtered (possibly empty) sequence
    for f in sorted(reach.reached):
        fi = prog.functions[f]
        if not planner_zone(prog, f):
            continue
        filtered: Dict[str, ast.AST] = {}
        for n in ast.walk(fi.node):
            if isinstance(n, ast.Assign) and len(n.targets) == 1 and isinstance(n.targets[0], ast.Name):
                v = n.value
                if isinstance(v, ast.ListComp) and any(g.ifs for g in v.generators):
                    filtered[n.targets[0].id] = v
                elif isinstance(v, ast.Call) and ast.unparse(v.func) in ("list", "tuple", "sorted") and v.args \
                        and ((isinstance(v.args[0], ast.GeneratorExp) and any(g.ifs for g in v.args[0].generators))
                             or (isinstance(v.args[0], ast.Call) and ast.unparse(v.args[0].func) == "filter")):
                    filtered[n.targets[0].id] = v
        cfg = None
        for n in ast.walk(fi.node):
            site = None
            if isinstance(n, ast.Subscript) and isinstance(n.ctx, ast.Load) and isinstance(n.value, ast.Name) and n.value.id in filtered \
                    and isinstance(n.slice, (ast.Constant, ast.UnaryOp)):
                site, exc, nm = n, "IndexError", n.value.id
            elif isinstance(n, ast.Call) and isinstance(n.func, ast.Name) and n.func.id == "next" and len(n.args) == 1 \
                    and isinstance(n.args[0], ast.GeneratorExp) and any(g.ifs for g in n.args[0].generators):
                site, exc, nm = n, "StopIteration", ""
            elif isinstance(n, ast.Call) and isinstance(n.func, ast.Attribute) and n.func.attr == "pop" and isinstance(n.func.value, ast.Name) \
                    and n.func.value.id in filtered:
                site, exc, nm = n, "IndexError", n.func.value.id
            if site is None:
                continue
            cfg = cfg or CFG(fi.node)
            dom = cfg.dominators()
            cn = cfg.node_of(site)
            guarded = any(exc in names or "LookupError" in names or "Exception" in names for names in handlers_around(fi, site))
            if nm and not guarded:
                for t in cfg.stmt_nodes():
                    if t.kind != "test" or not isinstance(t.ast, (ast.If, ast.While)) or cn is None or t.nid not in dom.get(cn, set()):
                        continue
                    tt = t.ast.test
                    inside = any(site is x for b in t.ast.body for x in ast.walk(b))
                    neg = isinstance(tt, ast.UnaryOp) and isinstance(tt.op, ast.Not) and ast.unparse(tt.operand) in (nm, f"len({nm})")
                    pos = ast.unparse(tt) in (nm, f"len({nm})", f"len({nm}) > 0", f"len({nm}) >= 1", f"{nm} != []")
                    if (pos and inside) or (neg and not inside and t.ast.body and isinstance(t.ast.body[-1], (ast.Continue, ast.Return, ast.Raise, ast.Break))):
                        guarded = True
            rep.check("R07.5", f"{f}:{ast.unparse(site)[:40]}", guarded,
                      f"`{ast.unparse(site)[:50]}` takes an element of a filtered sequence that can be empty, with no emptiness test before it: "
                      f"{exc} escapes from converting/comparing instead of ConversionNotFound", fi.where(site))
    # a dict entry read in a loop that may delete it
    for f in sorted(reach.reached):
        fi = prog.functions[f]
        if not planner_zone(prog, f):
            continue
        for lp in ast.walk(fi.node):
            if not isinstance(lp, (ast.For, ast.While)):
                continue
            deleted: Set[Tuple[str, str]] = set()
            for c in ast.walk(lp):
                if isinstance(c, ast.Call) and isinstance(c.func, ast.Name) and c.func.id in ("_clean_remove", "_clean_pop") and len(c.args) >= 2:
                    deleted.add((ast.unparse(c.args[0]), ast.unparse(c.args[1])))
                elif isinstance(c, ast.Call) and isinstance(c.func, ast.Attribute) and c.func.attr == "pop" and c.args and isinstance(c.func.value, ast.Name):
                    deleted.add((c.func.value.id, ast.unparse(c.args[0])))
                elif isinstance(c, ast.Delete):
                    for t in c.targets:
                        if isinstance(t, ast.Subscript):
                            deleted.add((ast.unparse(t.value), ast.unparse(t.slice)))
            # a key that the loop itself rebinds on every iteration names a different entry each time
            own = {x.id for x in ast.walk(lp.target) if isinstance(x, ast.Name)} if isinstance(lp, ast.For) else set()
            deleted = {(d_, k_) for d_, k_ in deleted if k_ not in own}
            if not deleted:
                continue
            body_nodes = [x for b in lp.body for x in ast.walk(b)] + (list(ast.walk(lp.test)) if isinstance(lp, ast.While) else [])
            for x in body_nodes:
                if isinstance(x, ast.Subscript) and isinstance(x.ctx, ast.Load) and (ast.unparse(x.value), ast.unparse(x.slice)) in deleted:
                    d, k = ast.unparse(x.value), ast.unparse(x.slice)
                    # a membership test of the same key inside the loop (its condition, or an enclosing `if` in the body) re-establishes it
                    tests = [ast.unparse(lp.test)] if isinstance(lp, ast.While) else []
                    p = getattr(x, "_parent", None)
                    while p is not None and p is not lp:
                        if isinstance(p, (ast.If, ast.IfExp)):
                            tests.append(ast.unparse(p.test))
                        if isinstance(p, ast.Try) and any(h.type is not None and "KeyError" in ast.unparse(h.type) for h in p.handlers):
                            tests.append(f"{k} in {d}")
                        p = getattr(p, "_parent", None)
                    okk = any(f"{k} in {d}" in t for t in tests)
                    rep.check("R07.5", f"{f}:{ast.unparse(x)[:40]}@loop", okk,
                              f"`{ast.unparse(x)[:50]}` is read on every iteration of a loop that can remove the entry {d}[{k}] (it is dropped when its "
                              "list empties), and the only membership test is outside the loop: KeyError escapes from converting/comparing",
                              fi.where(x))
    # R07.7: every factor of a unit takes part in planning.  A factor that _splat leaves out is never paired, so
    # "nothing left over" - the planner's success condition - holds vacuously and an impossible conversion succeeds with ratio 1
    sp = prog.func("conversions._splat")

    def always_adds(stmts: List[ast.stmt]) -> bool:
        for st in stmts:
            if isinstance(st, (ast.Continue, ast.Break, ast.Return)):
                return False
            if isinstance(st, ast.If):
                if always_adds(st.body) and (always_adds(st.orelse) if st.orelse else False):
                    return True
                if any(isinstance(x, (ast.Continue, ast.Break)) for b in st.body + st.orelse for x in ast.walk(b)):
                    return False
                continue
            if any(isinstance(c, ast.Call) and isinstance(c.func, ast.Attribute) and c.func.attr in ("extend", "append", "add", "update", "setdefault") for c in ast.walk(st)) \
                    or (isinstance(st, (ast.Assign, ast.AugAssign)) and any(isinstance(t, ast.Subscript) for t in (st.targets if isinstance(st, ast.Assign) else [st.target]))):
                return True
        return False
    loops = [n for n in ast.walk(sp.node) if isinstance(n, ast.For) and "factors" in ast.unparse(n.iter)]
    comps = [n for n in ast.walk(sp.node) if isinstance(n, (ast.DictComp, ast.ListComp, ast.GeneratorExp)) and any("factors" in ast.unparse(g.iter) for g in n.generators)]
    if not loops and not comps:
        raise AnalysisError("conversions._splat: no iteration over the unit's factors found (R07.7 anchor moved)")
    for lp in loops:
        rep.check("R07.7", "conversions._splat:every-factor", always_adds(lp.body),
                  "conversions._splat skips some factor of the unit (a path through its loop adds nothing): that factor is never paired, the planner sees "
                  "nothing left over, and a conversion that should fail with ConversionNotFound succeeds with ratio 1 (90 deg -> 90 one)", sp.where(lp))
    for c in comps:
        rep.check("R07.7", "conversions._splat:every-factor", not any(g.ifs for g in c.generators),
                  "conversions._splat filters the unit's factors: a skipped factor is never paired and impossible conversions succeed", sp.where(c))
    # R07.8: Measurement's comparisons convert through Quantity's comparison operators (which turn an impossible conversion into
    # NotImplemented); a direct in_unit()/convert() there lets ConversionNotFound out of <, <=, >, >=, sorted()
    mcls = prog.cls("Measurement")
    todo = [mcls.methods[d] for d in ("__eq__", "__lt__", "__le__", "__gt__", "__ge__") if d in mcls.methods]
    seen_m: Set[str] = set()
    n8 = 0
    while todo:
        q8 = todo.pop()
        if q8 in seen_m or q8 not in prog.functions:
            continue
        seen_m.add(q8)
        f8 = prog.functions[q8]
        n8 += 1
        for c in ast.walk(f8.node):
            if isinstance(c, ast.Call) and isinstance(c.func, ast.Attribute):
                if c.func.attr in ("in_unit", "convert"):
                    guarded = any("ConversionNotFound" in names or "Exception" in names or "ValueError" in names for names in handlers_around(f8, c))
                    rep.check("R07.8", f"{q8}:{ast.unparse(c)[:40]}", guarded,
                              f"`{ast.unparse(c)[:50]}` in {q8} converts outside any handler for ConversionNotFound: ordering a Measurement against a same-dimension "
                              "quantity that cannot be converted raises ConversionNotFound instead of TypeError", f8.where(c))
                # helpers of the class
                if isinstance(c.func.value, ast.Name) and c.func.value.id in ("self", f8.params()[0] if f8.params() else "self") and c.func.attr in mcls.methods:
                    todo.append(mcls.methods[c.func.attr])
    if n8 < 5:
        raise AnalysisError("Measurement comparison methods not found (R07.8 anchor moved)")
    if not any(r_.rid == "R07.8" and r_.instances for r_ in rep.rules.values()):
        rep.ok("R07.8", "Measurement", note="no direct conversion in Measurement's comparison methods")
    effect_free_asserts(rep, prog, resolver, "R07.9")
    # R07.11: `a < b` asks a.__lt__(b) and, when that returns NotImplemented, b.__gt__(a).  A comparison method that answers by
    # asking the mirrored question with the operands swapped (`return other > self` inside __lt__) is therefore re-entered with
    # the very same operands whenever the other side declines - which is exactly what Quantity's operators do when no conversion
    # exists: RecursionError where TypeError (or False) is due.
    MIRROR = {"__lt__": ast.Gt, "__gt__": ast.Lt, "__le__": ast.GtE, "__ge__": ast.LtE, "__eq__": ast.Eq, "__ne__": ast.NotEq}
    n11 = 0
    for ci_ in sorted((c for c in prog.classes.values() if c.module == ""), key=lambda c: c.name):
        for d_, op_ in MIRROR.items():
            q_ = ci_.methods.get(d_)
            if q_ is None:
                continue
            f_ = prog.func(q_)
            ps_ = f_.params()
            if len(ps_) < 2:
                continue
            n11 += 1
            loops_ = [c for c in ast.walk(f_.node) if isinstance(c, ast.Compare) and len(c.ops) == 1 and isinstance(c.ops[0], op_)
                      and isinstance(c.left, ast.Name) and c.left.id == ps_[1] and isinstance(c.comparators[0], ast.Name) and c.comparators[0].id == ps_[0]]
            loops_ += [c for c in ast.walk(f_.node) if isinstance(c, ast.Call) and isinstance(c.func, ast.Attribute) and isinstance(c.func.value, ast.Name)
                       and c.func.value.id == ps_[1] and MIRROR.get(c.func.attr) is not None and MIRROR[c.func.attr] is MIRROR[d_] and False]
            rep.check("R07.11", q_, not loops_,
                      f"{q_} answers with `{ast.unparse(loops_[0]) if loops_ else ''}`: the mirrored comparison of the same two operands. When the other operand's "
                      "method returns NotImplemented (no conversion, another dimension) Python comes straight back here: unbounded recursion, "
                      "RecursionError instead of TypeError", f_.where(loops_[0]) if loops_ else f_.where())
    # R07.10: _cancel_factors pops a factor filed under a dimension and one filed under its inverse; Number is its own inverse,
    # so without a test that the two keys differ the second pop takes from the list the first one may just have emptied
    cf = prog.func("conversions._cancel_factors")
    n10 = 0
    for loop in [x for x in ast.walk(cf.node) if isinstance(x, ast.While)]:
        keys = [ast.unparse(c.left) for c in ast.walk(loop.test) if isinstance(c, ast.Compare) and len(c.ops) == 1 and isinstance(c.ops[0], ast.In)]
        if len(set(keys)) != 2:
            continue
        pops = [c for st in loop.body for c in ast.walk(st) if isinstance(c, ast.Call) and ast.unparse(c.func) in ("_clean_pop",) and len(c.args) == 2
                and ast.unparse(c.args[1]) in keys]
        popped = {ast.unparse(c.args[1]) for c in pops}
        if popped != set(keys):
            continue
        n10 += 1
        a_, b_ = sorted(set(keys))
        distinct = any(isinstance(t, ast.Compare) and len(t.ops) == 1 and isinstance(t.ops[0], (ast.Is, ast.IsNot, ast.Eq, ast.NotEq))
                       and {ast.unparse(t.left), ast.unparse(t.comparators[0])} == {a_, b_} for st in loop.body for t in ast.walk(st))
        rep.check("R07.10", f"_cancel_factors:{a_}/{b_}", distinct,
                  f"_cancel_factors pops a factor under `{a_}` and one under `{b_}` after testing that both keys exist, but never that they are different "
                  "keys: for Number (its own inverse) an odd number of dimensionless factors makes the second pop raise KeyError - from in_unit, +, -, == "
                  "and <, where ConversionNotFound (or a result) is expected", cf.where(pops[-1]))
    if n10 == 0:
        rep.ok("R07.10", "_cancel_factors", note="no loop that pops under two keys")
    # mypy diagnostics in the planner zone
    zone_files = {"conversions.py"}
    # only the diagnostics that stand for an exception at run time (an operator, call, attribute or subscript the operand's type does not
    # support); `[assignment]`, `[return-value]` and the annotation hygiene codes describe the annotations, not what the statement does
    RUNTIME_CODES = ("[operator]", "[arg-type]", "[call-arg]", "[call-overload]", "[attr-defined]", "[union-attr]", "[index]", "[name-defined]",
                     "[misc]", "[type-var]", "[not-callable]")
    errs = [e for e in getattr(prog, "mypy_errors", []) if any(f"/{z}:" in e or e.startswith(f"src/measured/{z}:") for z in zone_files)
            and any(c in e for c in RUNTIME_CODES)]
    rep.check("R07.5", "mypy:conversions.py", not errs,
              f"mypy reports type errors in the planner: {errs[:2]} - a latent TypeError on the conversion path", "src/measured/conversions.py")
    for f in sorted(reach.reached):
        fi = prog.functions[f]
        ops = []
        for n in Resolver._own_nodes(fi.node):
            if isinstance(n, ast.Subscript) and isinstance(n.ctx, ast.Load):
                ops.append("subscript")
            if isinstance(n, ast.Call) and isinstance(n.func, ast.Attribute) and n.func.attr in ("pop", "remove"):
                ops.append(n.func.attr)
        if ops and planner_zone(prog, f):
            rep.inventory("R07.5i", {"function": f, "partial_operations": sorted(set(ops))})
    rep.analysed.update({"entries": entries, "reachable_functions": len(reach.reached),
                         "reachable": sorted(reach.reached), "mypy_diagnostics": getattr(prog, "mypy_errors", [])[:5]})
    rep.assume("dynamically typed (Any) arguments conform to the callee's declared parameter annotation (the package type-checks under mypy --strict)")
    rep.not_decided.append("whether a conversion that could be carried out is found (C04)")
    rep.not_decided.append("KeyError/IndexError from dict/list operations inside the planner's multiset heuristics: inventoried, not decided")
    rep.trust("mypy 2.3.1 expression types for call resolution; CPython semantics of -O (removes assert, sets __debug__ False, may drop docstrings)")
