"""C14 - uncertainty propagates by first-order Gaussian rules for independent inputs."""
from __future__ import annotations

import ast
from typing import Dict, List, Optional, Set, Tuple

from ..absint import IntParam, MeasV, NotImpl, NumV, OpaqueV, QuantV, Unsupported, ren_rat
from ..algebra import describe
from ..calls import Resolver
from ..core import AnalysisError, Report
from ..e4util import default_arg_sets, run_function
from ..model import Program
from ..poly import Lin, Poly, Rat
from ..quantity_rules import LAYERS

TITLE = "Uncertainty propagates by first-order Gaussian rules for independent inputs"

OPS = {
    "Measurement.__add__": "add", "Measurement.__sub__": "sub", "Measurement.__rsub__": "rsub",
    "Measurement.__mul__": "mul", "Measurement.__truediv__": "div", "Measurement.__rtruediv__": "rdiv",
    "Measurement.__pow__": "pow",
}
BINARY = ["__eq__", "__lt__", "__le__", "__gt__", "__ge__", "__add__", "__radd__", "__sub__", "__rsub__",
          "__mul__", "__rmul__", "__truediv__", "__rtruediv__"]


def neg_atoms(r: Rat) -> Set[str]:
    out: Set[str] = set(r.d.atoms())
    for m in r.n.terms:
        for a, e in m:
            if (e.is_const and e.c < 0) or (not e.is_const):
                out.add(a)
    return out


def expected_measurand(kind: str, me: MeasV, other: object) -> Optional[Rat]:
    vs = me.measurand.value()
    if isinstance(other, MeasV):
        vo = other.measurand.value()
    elif isinstance(other, QuantV):
        vo = other.value()
    elif isinstance(other, IntParam):
        return vs.pow_lin(other.lin)
    else:
        return None
    return {"add": vs + vo, "sub": vs - vo, "rsub": vo - vs, "mul": vs * vo, "div": vs / vo, "rdiv": vo / vs}.get(kind)


def run(rep: Report) -> None:
    prog = Program()
    resolver = Resolver(prog)
    rep.rule("R14.0", "the resulting measurand is the same operation on the plain quantities", floor=13)
    rep.rule("R14.1", "degree typing: the number stored as uncertainty is expressed in the measurand's unit", floor=13)
    rep.rule("R14.2", "analytic identity: sigma^2 of the result normalises to sum((df/dx_i)^2 sigma_i^2) with f the "
             "measurand expression of the same method", floor=13)
    rep.rule("R14.3", "no spurious singularity: a division by an operand's measurand must survive in f or in the "
             "simplified sigma^2", floor=4)
    rep.rule("R14.9", "no flooring, truncating or rounding step (isqrt, int, round, floor, //) in Measurement arithmetic or the helpers it calls", floor=7)
    rep.rule("R14.8", "the Quantity operators Measurement arithmetic builds on (*, /, **) return the raw magnitudes combined, in the combined unit "
             "(representation, not only value)", floor=3)
    rep.rule("R14.6", "Measurement.__init__ stores the measurand and abs(uncertainty) (a number being put in the measurand's unit) and nothing else", floor=2)
    rep.rule("R14.7", "Quantity's binary operators return NotImplemented for a Measurement operand (the reflected Measurement method decides)", floor=4)
    rep.rule("R07.9", "no assert in the package does part of the computation (python -O would drop it: sigma would be computed differently in optimised mode) - shared with C07", floor=1)
    rep.rule("R14.4", "the uncertainty is stored as abs(.) on every path of Measurement.__init__", floor=1)
    rep.rule("R14.5", "inventory: binary dunders that begin with the literal coercion Measurement(other, 0); the behaviour (a plain quantity acts as sigma = 0) is decided by R14.2 on the Quantity arm", armed=False, floor=13)
    # R14.9: the combined uncertainty is a square root of a sum of squares - a real number.  Nothing on the way from the operands'
    # uncertainties to the stored one floors, truncates or rounds (math.isqrt floors every radicand that is not a perfect square:
    # (12 +- 1 ft) * (10 +- 1 m) would get +- 15 instead of 15.62)
    FLOORING = {"math.isqrt", "isqrt", "round", "int", "math.floor", "math.ceil", "math.trunc", "floor", "ceil", "trunc", "divmod"}
    hosts9: List[str] = []
    for qual in list(OPS) + ["Measurement._join_uncertainties", "Measurement.__init__"]:
        if qual in prog.functions and qual not in hosts9:
            hosts9.append(qual)
    for qual in list(hosts9):
        for cs in resolver.callsites(qual):
            for t in cs.targets:
                tfi = prog.functions.get(t)
                if tfi is not None and tfi.module == "" and (tfi.cls in (None, "", "Measurement")) and t not in hosts9 \
                        and tfi.name not in ("_add", "_sub", "_mul", "_div", "_pow"):
                    hosts9.append(t)
    for qual in hosts9:
        hfi = prog.functions[qual]
        bad9 = [n for n in ast.walk(hfi.node) if (isinstance(n, ast.Call) and ast.unparse(n.func) in FLOORING)
                or (isinstance(n, ast.BinOp) and isinstance(n.op, ast.FloorDiv))]
        rep.check("R14.9", qual, not bad9,
                  f"{qual} applies `{ast.unparse(bad9[0])[:50] if bad9 else ''}` on the way to the stored uncertainty: a flooring / rounding step - the combined "
                  "uncertainty sqrt(sum of squares) is not an integer ((12 +- 1 ft) * (10 +- 1 m) gets +- 15 instead of 15.62)", hfi.where(bad9[0]) if bad9 else hfi.where())
    # R14.8: R14.1 and R14.2 read the measurand through the *specification* of the Quantity operator (magnitude**n in unit**n),
    # while Measurement's formulas use the operands' raw magnitudes: that is the result's uncertainty in the result's unit only
    # if the Quantity operator returns that representation, not merely an equal value in another unit
    from .. import specs as _specs
    from ..absint import UnitV as _UnitV
    SPEC = {"Quantity.__mul__": _specs.q_mul, "Quantity.__truediv__": _specs.q_div, "Quantity.__pow__": _specs.q_pow}
    for qq, spec_fn in SPEC.items():
        qfi = prog.func(qq)
        for args in default_arg_sets(prog, resolver, qq, "unit"):
            qme = args["self"]
            qother = [v for k, v in args.items() if k != "self"][0]
            if not isinstance(qme, QuantV) or not isinstance(qother, (QuantV, IntParam)):
                continue
            try:
                qrun = run_function(prog, resolver, qq, LAYERS, args)
            except Unsupported as e:
                raise AnalysisError(f"{qq}: {e}")
            for o in qrun.outcomes:
                if o.kind != "return" or not isinstance(o.value, QuantV):
                    continue
                want_q = spec_fn(qrun.interp, o.node, [qme, qother], {})
                if not isinstance(want_q, QuantV):
                    raise AnalysisError(f"{qq}: no specification value for operand {type(qother).__name__}")
                key = f"{qq}[{type(qother).__name__}]" + ("|" + "&".join(("" if v else "not ") + t for t, v in o.path) if o.path else "")
                same_unit = o.value.unit.same(want_q.unit)
                same_mag = ren_rat(o.value.mag.rat, o.ren) == ren_rat(want_q.mag.rat, o.ren)
                rep.check("R14.8", key, same_unit and same_mag,
                          f"{qq} returns {describe(o.value)}; Measurement's formulas take the result to be the operands' raw magnitudes combined, in "
                          f"{describe(want_q.unit)} - an equal value in another unit gives the uncertainty the wrong scale ((2 +- 0.1 km)**-1 gets +- 0.025 m^-1 "
                          "instead of 2.5e-5)", qfi.where(o.node))
    for qual, kind in OPS.items():
        fi = prog.func(qual)
        for args in default_arg_sets(prog, resolver, qual, "unit"):
            me = args["self"]
            assert isinstance(me, MeasV)
            other = [v for k, v in args.items() if k != "self"][0]
            try:
                run_ = run_function(prog, resolver, qual, LAYERS, args, inline_depth=3)
            except Unsupported as e:
                raise AnalysisError(f"{qual}: {e}")
            arm = type(other).__name__
            heads = run_.interp.heads
            n = 0
            for o in run_.outcomes:
                if o.kind != "return" or isinstance(o.value, NotImpl):
                    continue
                n += 1
                key = f"{qual}[{arm}]" + ("|" + "&".join(("" if v else "not ") + t for t, v in o.path) if o.path else "")
                got = o.value
                if not isinstance(got, MeasV):
                    # not a verdict - and not the end of the run either: what the other rules found is still reported
                    rep.defer(AnalysisError(f"{key} returns {describe(got)} ({getattr(got, 'why', '')}): outside the interpreted subset"))
                    continue
                f = got.measurand.mag.rat
                want_f = expected_measurand(kind, me, other)
                if want_f is None:
                    raise AnalysisError(f"{key}: no specification for operand {arm}")
                want_f = ren_rat(want_f, o.ren)
                rep.check("R14.0", key, got.measurand.value() == want_f,
                          f"measurand of the result denotes {got.measurand.value()!r}, the plain operation gives {want_f!r}",
                          fi.where(o.node))
                # sigma^2
                s2 = heads.squared(got.uncertainty.mag.rat)
                inputs: List[Tuple[str, Rat]] = [("x:self", Rat.atom("s:self"))]
                if isinstance(other, MeasV):
                    inputs.append(("x:other", Rat.atom("s:other")))
                spec = Rat(Poly())
                for x, s in inputs:
                    d = f.diff(x)
                    spec = spec + d * d * s * s
                spec = ren_rat(spec, o.ren)
                rep.check("R14.2", key, s2 == spec,
                          f"sigma^2 = {s2!r}; first-order propagation of f = {f!r} requires {spec!r}",
                          fi.where(o.node), note=repr(s2))
                # tier A: unit of the uncertainty number
                mine = [e for e in run_.events if e.kind == "ctor" and e.data.get("cls") == "Measurement" and e.data.get("func") == qual
                        and e.plan == o.plan]
                ctor = [e for e in mine if e.path == o.path] or [e for e in mine if e.node is getattr(o.node, "value", None)] or mine
                typed = True
                why = ""
                for e in ctor[-1:]:
                    s, q = e.data["s"], e.data["q"]
                    if isinstance(s, NumV) and isinstance(q, QuantV):
                        if s.ut is None and s.rat.is_zero():
                            continue
                        ut = s.unit_type()
                        if not ut.same(q.unit):
                            typed = False
                            why = f"the number is in {describe(ut)}, the measurand in {describe(q.unit)}"
                    elif isinstance(s, QuantV) and isinstance(q, QuantV):
                        if not s.unit.same(q.unit):
                            typed = False
                            why = f"uncertainty in {describe(s.unit)}, measurand in {describe(q.unit)}"
                rep.check("R14.1", key, typed, f"degree typing of the uncertainty fails: {why}", fi.where(o.node))
                # spurious singularities
                legit = neg_atoms(f) | neg_atoms(spec)
                for e in run_.events:
                    if e.kind != "div" or e.plan != o.plan:
                        continue
                    den: Rat = e.data["den"]
                    for a in den.atoms():
                        if not a.startswith("x:"):
                            continue
                        dkey = f"{qual}[{arm}]:/{a}"
                        rep.check("R14.3", dkey, a in legit,
                                  f"the formula divides by {a} although neither the result nor its uncertainty has {a} in a "
                                  "denominator: ZeroDivisionError for a zero measurand where the mathematics is defined",
                                  fi.where(e.node))
            if n == 0:
                raise AnalysisError(f"{qual}[{arm}]: no return analysed")
    # R14.6: the constructor keeps what the operators computed
    from ..quantity_rules import check_plain_ctor
    check_plain_ctor(rep, prog, "R14.6", "Measurement", {"measurand": ["$p"],
                                                         "uncertainty": ["abs($p)", "abs(Quantity($p,measurand.unit))"]})
    # R14.7: with a plain quantity on the LEFT, Quantity's operator must step aside (NotImplemented) so that
    # Measurement's reflected method - the one R14.2 decides - computes the result
    mcls = prog.cls("Measurement")
    m_members = set(mcls.methods) | set(mcls.aliases) | set(mcls.class_attrs)

    def admits_measurement(k: str) -> Optional[str]:
        """does isinstance(x, k) hold for a Measurement?  nominally, or structurally for a runtime-checkable Protocol"""
        k = k.split(".")[-1]
        if k in ("Measurement", "object"):
            return "it is that class"
        ci = prog.classes.get(k)
        if ci is None:
            return None
        if any(b.split(".")[-1].split("[")[0] == "Protocol" for b in ci.bases):
            need = {n for n in list(ci.methods) + list(ci.class_attrs) if not n.startswith("__")}
            if need and need <= m_members:
                return f"{k} is a runtime-checkable Protocol whose members {sorted(need)} Measurement has"
        return None
    for qop in ("Quantity.__mul__", "Quantity.__truediv__", "Quantity.__add__", "Quantity.__sub__", "Quantity.__rmul__", "Quantity.__rtruediv__"):
        if qop not in prog.functions and not prog.method("Quantity", qop.split(".")[1]):
            continue
        qs_ = prog.method("Quantity", qop.split(".")[1])
        qfi = prog.functions[qs_[0]] if qs_ else prog.func(qop)
        other_p = qfi.params()[1] if len(qfi.params()) > 1 else "other"
        hits = []
        for t in ast.walk(qfi.node):
            if isinstance(t, ast.Call) and isinstance(t.func, ast.Name) and t.func.id == "isinstance" and len(t.args) == 2 \
                    and isinstance(t.args[0], ast.Name) and t.args[0].id == other_p:
                kinds = t.args[1].elts if isinstance(t.args[1], ast.Tuple) else [t.args[1]]
                for k in kinds:
                    why = admits_measurement(ast.unparse(k))
                    if why:
                        hits.append((t, why))
        rep.check("R14.7", f"{qop}[Measurement]", not hits,
                  f"{qop} handles a Measurement operand itself (`{ast.unparse(hits[0][0]) if hits else ''}`: {hits[0][1] if hits else ''}) instead of returning "
                  "NotImplemented: Python then never calls Measurement's reflected operator and quantity (op) measurement silently drops the uncertainty",
                  qfi.where(hits[0][0] if hits else None))
    # R14.4
    init = prog.func("Measurement.__init__")
    stores = [n for n in ast.walk(init.node) if isinstance(n, ast.Assign)
              and any(isinstance(t, ast.Attribute) and t.attr == "uncertainty" and isinstance(t.value, ast.Name) and t.value.id == "self" for t in n.targets)]
    ok = bool(stores) and all(isinstance(s.value, ast.Call) and isinstance(s.value.func, ast.Name) and s.value.func.id == "abs" for s in stores)
    rep.check("R14.4", "Measurement.__init__", ok, "self.uncertainty is stored without abs(.) on some path: a negative "
              "uncertainty can be kept", init.where(stores[0] if stores else None))
    # attribute stores elsewhere
    for q, fi in prog.functions.items():
        if q == "Measurement.__init__" or fi.module in ("hypothesis", "pytest"):
            continue
        for n in ast.walk(fi.node):
            if isinstance(n, (ast.Assign, ast.AugAssign)):
                tg = n.targets if isinstance(n, ast.Assign) else [n.target]
                for t in tg:
                    if isinstance(t, ast.Attribute) and t.attr == "uncertainty":
                        rep.fail("R14.4", f"{q}:store", f"{q} assigns .uncertainty outside Measurement.__init__ (bypasses abs)", fi.where(n))
    # R14.5
    ci = prog.cls("Measurement")
    for d in BINARY:
        qs = prog.method("Measurement", d)
        if not qs:
            rep.fail("R14.5", f"Measurement.{d}", f"Measurement defines no {d}", f"{ci.path}:{ci.node.lineno}")
            continue
        fi = prog.functions[qs[0]]
        param = fi.params()[1] if len(fi.params()) > 1 else None
        ok = False
        for st in fi.node.body:
            if isinstance(st, ast.If) and ast.unparse(st.test).replace(" ", "") == f"isinstance({param},Quantity)" and st.body:
                a = st.body[0]
                if isinstance(a, ast.Assign) and ast.unparse(a.targets[0]) == param and isinstance(a.value, ast.Call) \
                        and ast.unparse(a.value.func) == "Measurement" and len(a.value.args) == 2 \
                        and ast.unparse(a.value.args[0]) == param and isinstance(a.value.args[1], ast.Constant) and a.value.args[1].value == 0:
                    ok = True
                break
            if not (isinstance(st, ast.Expr) and isinstance(st.value, ast.Constant)):
                break
        rep.check("R14.5", f"Measurement.{d}", ok, f"{qs[0]} does not begin by coercing a Quantity operand to "
                  "Measurement(other, 0): a plain quantity would not behave as a measurement with zero uncertainty", fi.where())
    rep.assume("in_unit is value-preserving (C04); Quantity operators are as specified (C03/C06)")
    from .c07 import effect_free_asserts
    effect_free_asserts(rep, prog, resolver, "R07.9")
    rep.not_decided.append("floating-point rounding of the (algebraically verified) formulas")
    rep.trust("mypy 2.3.1 expression types; E4 normal forms incl. sqrt/abs heads (sa/poly.py, sa/absint.py)")
