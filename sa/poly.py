"""Normal forms for E4: rational functions whose monomials carry exponents that are
linear in symbolic integers, plus opaque heads (sqrt, abs, log, exp).

  Lin   linear form  c0 + sum c_i * param_i           (exponents)
  Poly  sum of coef * prod atom^Lin                   (numerators / denominators)
  Rat   Poly / Poly                                   (values)

This is the machinery of a constant folder extended to monomials.  Equality of
normal forms is sound (equal forms denote equal functions wherever denominators are
non-zero); it is not complete, and callers treat "cannot normalise" as an analysis
error, never as a verdict.
"""
from __future__ import annotations

from fractions import Fraction
from typing import Dict, FrozenSet, Iterable, List, Optional, Tuple, Union

Number = Union[int, Fraction]


class Lin:
    __slots__ = ("c", "t")

    def __init__(self, c: Number = 0, t: Optional[Dict[str, Fraction]] = None) -> None:
        self.c = Fraction(c)
        self.t = {k: Fraction(v) for k, v in (t or {}).items() if v != 0}

    @staticmethod
    def of(x: Union["Lin", Number]) -> "Lin":
        return x if isinstance(x, Lin) else Lin(x)

    @staticmethod
    def sym(name: str) -> "Lin":
        return Lin(0, {name: Fraction(1)})

    def __add__(self, o: Union["Lin", Number]) -> "Lin":
        o = Lin.of(o)
        t = dict(self.t)
        for k, v in o.t.items():
            t[k] = t.get(k, Fraction(0)) + v
        return Lin(self.c + o.c, t)

    def __neg__(self) -> "Lin":
        return Lin(-self.c, {k: -v for k, v in self.t.items()})

    def __sub__(self, o: Union["Lin", Number]) -> "Lin":
        return self + (-Lin.of(o))

    def scale(self, k: Number) -> "Lin":
        k = Fraction(k)
        return Lin(self.c * k, {a: v * k for a, v in self.t.items()})

    def mul(self, o: "Lin") -> Optional["Lin"]:
        """Product, defined when at least one side is constant."""
        if not o.t:
            return self.scale(o.c)
        if not self.t:
            return o.scale(self.c)
        # (a/x) * (b*x) = a*b for a symbolic integer x and its reciprocal parameter
        if self.c == 0 and o.c == 0 and len(self.t) == 1 and len(o.t) == 1:
            (k1, v1), = self.t.items()
            (k2, v2), = o.t.items()
            if k1 == "1/" + k2 or k2 == "1/" + k1:
                return Lin(v1 * v2)
        return None

    @property
    def is_const(self) -> bool:
        return not self.t

    def is_zero(self) -> bool:
        return self.c == 0 and not self.t

    def key(self) -> Tuple:
        return (self.c, tuple(sorted(self.t.items())))

    def __eq__(self, o: object) -> bool:
        return isinstance(o, Lin) and self.key() == o.key()

    def __hash__(self) -> int:
        return hash(self.key())

    def __repr__(self) -> str:
        parts = []
        if self.c != 0 or not self.t:
            parts.append(str(self.c))
        for k, v in sorted(self.t.items()):
            parts.append(f"{v}*{k}" if v != 1 else k)
        return "+".join(parts)


Mono = Tuple[Tuple[str, Lin], ...]   # sorted by atom name


def mono_mul(a: Mono, b: Mono) -> Mono:
    d: Dict[str, Lin] = dict(a)
    for k, e in b:
        d[k] = d[k] + e if k in d else e
    return tuple(sorted(((k, e) for k, e in d.items() if not e.is_zero()), key=lambda x: x[0]))


def mono_pow(a: Mono, e: Lin) -> Optional[Mono]:
    out = []
    for k, x in a:
        y = x.mul(e)
        if y is None:
            return None
        if not y.is_zero():
            out.append((k, y))
    return tuple(sorted(out, key=lambda x: x[0]))


class Poly:
    __slots__ = ("terms",)

    def __init__(self, terms: Optional[Dict[Mono, Fraction]] = None) -> None:
        self.terms: Dict[Mono, Fraction] = {m: Fraction(c) for m, c in (terms or {}).items() if c != 0}

    @staticmethod
    def const(c: Number) -> "Poly":
        return Poly({(): Fraction(c)})

    @staticmethod
    def atom(name: str, e: Union[Lin, Number] = 1) -> "Poly":
        return Poly({((name, Lin.of(e)),): Fraction(1)})

    @staticmethod
    def from_lin(l: Lin) -> "Poly":
        terms: Dict[Mono, Fraction] = {}
        if l.c != 0:
            terms[()] = l.c
        for k, v in l.t.items():
            terms[((k, Lin(1)),)] = v
        return Poly(terms)

    def __add__(self, o: "Poly") -> "Poly":
        t = dict(self.terms)
        for m, c in o.terms.items():
            t[m] = t.get(m, Fraction(0)) + c
        return Poly(t)

    def __neg__(self) -> "Poly":
        return Poly({m: -c for m, c in self.terms.items()})

    def __sub__(self, o: "Poly") -> "Poly":
        return self + (-o)

    def __mul__(self, o: "Poly") -> "Poly":
        t: Dict[Mono, Fraction] = {}
        for m1, c1 in self.terms.items():
            for m2, c2 in o.terms.items():
                m = mono_mul(m1, m2)
                t[m] = t.get(m, Fraction(0)) + c1 * c2
        return Poly(t)

    def is_zero(self) -> bool:
        return not self.terms

    def is_monomial(self) -> bool:
        return len(self.terms) == 1

    def pow_lin(self, e: Lin) -> Optional["Poly"]:
        if e.is_const and e.c.denominator == 1 and e.c >= 0:
            r = Poly.const(1)
            for _ in range(int(e.c)):
                r = r * self
            return r
        if self.is_monomial():
            (m, c), = self.terms.items()
            mp = mono_pow(m, e)
            if mp is None:
                return None
            if c == 1:
                return Poly({mp: Fraction(1)})
            if e.is_const and e.c.denominator == 1:
                return Poly({mp: c ** int(e.c)})
            # coefficient to a symbolic / fractional power: keep as an atom
            name = f"<{c}>"
            return Poly({mono_mul(mp, ((name, e),)): Fraction(1)})
        return None

    def key(self) -> FrozenSet:
        return frozenset(self.terms.items())

    def __eq__(self, o: object) -> bool:
        return isinstance(o, Poly) and self.key() == o.key()

    def __hash__(self) -> int:
        return hash(self.key())

    def atoms(self) -> List[str]:
        out: List[str] = []
        for m in self.terms:
            for k, _ in m:
                if k not in out:
                    out.append(k)
        return out

    def diff(self, atom: str) -> "Poly":
        t: Dict[Mono, Fraction] = {}
        res = Poly()
        for m, c in self.terms.items():
            d = dict(m)
            if atom not in d:
                continue
            e = d[atom]
            d[atom] = e - 1
            rest = tuple(sorted(((k, x) for k, x in d.items() if not x.is_zero()), key=lambda x: x[0]))
            res = res + Poly({rest: c}) * Poly.from_lin(e)
        return res

    def subst(self, atom: str, value: "Rat") -> "Rat":
        total = Rat(Poly())
        for m, c in self.terms.items():
            term = Rat(Poly.const(c))
            for k, e in m:
                if k == atom:
                    p = value.pow_lin(e)
                    if p is None:
                        raise ValueError("substitution under a symbolic exponent")
                    term = term * p
                else:
                    term = term * Rat(Poly({((k, e),): Fraction(1)}))
            total = total + term
        return total

    def __repr__(self) -> str:
        if not self.terms:
            return "0"
        parts = []
        for m, c in sorted(self.terms.items(), key=lambda x: repr(x[0])):
            s = "*".join(f"{k}^({e})" if e != Lin(1) else k for k, e in m)
            parts.append(f"{c}" + ("*" + s if s else ""))
        return " + ".join(parts)


class Rat:
    __slots__ = ("n", "d")

    def __init__(self, n: Poly, d: Optional[Poly] = None) -> None:
        self.n = n
        self.d = d if d is not None else Poly.const(1)
        if self.d.is_zero():
            raise ZeroDivisionError("zero denominator in a normal form")
        self._norm()

    def _norm(self) -> None:
        # move a monomial denominator into the numerator (negative exponents)
        if self.d.is_monomial():
            (m, c), = self.d.terms.items()
            inv = mono_pow(m, Lin(-1))
            if inv is not None:
                self.n = self.n * Poly({inv: 1 / c})
                self.d = Poly.const(1)

    @staticmethod
    def const(c: Number) -> "Rat":
        return Rat(Poly.const(c))

    @staticmethod
    def atom(name: str) -> "Rat":
        return Rat(Poly.atom(name))

    def __add__(self, o: "Rat") -> "Rat":
        if self.d == o.d:
            return Rat(self.n + o.n, self.d)
        return Rat(self.n * o.d + o.n * self.d, self.d * o.d)

    def __neg__(self) -> "Rat":
        return Rat(-self.n, self.d)

    def __sub__(self, o: "Rat") -> "Rat":
        return self + (-o)

    def __mul__(self, o: "Rat") -> "Rat":
        return Rat(self.n * o.n, self.d * o.d)

    def inv(self) -> "Rat":
        if self.n.is_zero():
            raise ZeroDivisionError("division by the zero normal form")
        return Rat(self.d, self.n)

    def __truediv__(self, o: "Rat") -> "Rat":
        return self * o.inv()

    def pow_lin(self, e: Lin) -> Optional["Rat"]:
        if e.is_const and e.c.denominator == 1 and e.c < 0:
            p = self.inv().pow_lin(-e)
            return p
        n = self.n.pow_lin(e)
        d = self.d.pow_lin(e)
        if n is None or d is None:
            return None
        return Rat(n, d)

    def is_zero(self) -> bool:
        return self.n.is_zero()

    def __eq__(self, o: object) -> bool:
        return isinstance(o, Rat) and (self.n * o.d) == (o.n * self.d)

    def __hash__(self) -> int:  # pragma: no cover - not used as a key
        return 0

    def diff(self, atom: str) -> "Rat":
        # (n/d)' = (n' d - n d') / d^2
        return Rat(self.n.diff(atom) * self.d - self.n * self.d.diff(atom), self.d * self.d)

    def atoms(self) -> List[str]:
        out = self.n.atoms()
        for a in self.d.atoms():
            if a not in out:
                out.append(a)
        return out

    def subst(self, atom: str, value: "Rat") -> "Rat":
        return self.n.subst(atom, value) / self.d.subst(atom, value)

    def degree_in(self, atom: str) -> Optional[Lin]:
        """Exponent of atom if the form is a monomial in it (homogeneous), else None."""
        exps = set()
        for p in (self.n, self.d):
            for m in p.terms:
                d = dict(m)
                exps.add((p is self.n, d.get(atom, Lin(0))))
        ne = {e for isn, e in exps if isn}
        de = {e for isn, e in exps if not isn}
        if len(ne) == 1 and len(de) == 1:
            return next(iter(ne)) - next(iter(de))
        return None

    def __repr__(self) -> str:
        if self.d == Poly.const(1):
            return repr(self.n)
        return f"({self.n!r}) / ({self.d!r})"
