"""Syntactic inlining of same-module helpers, so that shape rules written for one function keep
deciding it after a maintainer splits it into helpers (`magnitude = _apply(magnitude, ratio, path,
exponent)`).  Only the simple, exact case is inlined: the call is the whole right-hand side of an
assignment (or a bare statement), the helper is a plain function of the same module whose only
`return` is its last statement, and arguments are positional or keyword without */**.

Parameters are replaced by the caller's names when the argument is a plain name and either the
helper never assigns the parameter or the call assigns its result back to that very name (the
accumulator idiom); otherwise the parameter becomes a fresh local initialised from the argument.
Other helper locals are renamed only when they collide with names of the caller."""
from __future__ import annotations

import ast
import copy
import dataclasses
from typing import Dict, List, Optional, Set

from .model import FuncInfo, Program


def _assigned(fn: ast.AST) -> Set[str]:
    return {x.id for n in ast.walk(fn) for x in ast.walk(n) if isinstance(x, ast.Name) and isinstance(x.ctx, ast.Store)}


def _names(fn: ast.AST) -> Set[str]:
    return {x.id for x in ast.walk(fn) if isinstance(x, ast.Name)} | {a.arg for a in ast.walk(fn) if isinstance(a, ast.arg)}


class _Rename(ast.NodeTransformer):
    def __init__(self, mapping: Dict[str, ast.AST]) -> None:
        self.m = mapping

    def visit_Name(self, n: ast.Name) -> ast.AST:
        r = self.m.get(n.id)
        if r is None:
            return n
        if isinstance(r, ast.Name):
            return ast.copy_location(ast.Name(id=r.id, ctx=n.ctx), n)
        return ast.copy_location(copy.deepcopy(r), n) if isinstance(n.ctx, ast.Load) else n


def _inlinable(h: ast.AST) -> bool:
    if not isinstance(h, ast.FunctionDef) or h.decorator_list:
        return False
    a = h.args
    if a.vararg or a.kwarg or a.kwonlyargs or a.posonlyargs:
        return False
    body = [s for s in h.body if not (isinstance(s, ast.Expr) and isinstance(s.value, ast.Constant))]
    if not body:
        return False
    rets = [n for n in ast.walk(h) if isinstance(n, ast.Return)]
    nested = [n for n in ast.walk(h) if isinstance(n, (ast.FunctionDef, ast.Lambda, ast.AsyncFunctionDef)) and n is not h]
    if nested or any(isinstance(n, (ast.Yield, ast.YieldFrom)) for n in ast.walk(h)):
        return False
    return len(rets) == 0 or (len(rets) == 1 and rets[0] is body[-1])


def inline_helpers(prog: Program, fi: FuncInfo, depth: int = 2) -> FuncInfo:
    """-> a FuncInfo whose node is a copy of fi.node with eligible helper calls expanded."""
    mi = prog.modules[fi.module]
    fn = copy.deepcopy(fi.node)
    counter = [0]

    def hoist(st: ast.stmt) -> List[ast.stmt]:
        """`return Quantity(_follow(m, plan), unit)` -> `t = _follow(m, plan); return Quantity(t, unit)`: a helper call nested in
        the expression of a simple statement is named first, so that it can be expanded like any other."""
        if not isinstance(st, (ast.Return, ast.Assign, ast.Expr, ast.AnnAssign, ast.AugAssign)) or getattr(st, "value", None) is None:
            return [st]
        pre: List[ast.stmt] = []
        blocked = {id(x) for c in ast.walk(st.value) if isinstance(c, (ast.ListComp, ast.SetComp, ast.DictComp, ast.GeneratorExp, ast.Lambda, ast.IfExp, ast.BoolOp))
                   for x in ast.walk(c) if x is not c}

        class H(ast.NodeTransformer):
            def visit_Call(self, n: ast.Call) -> ast.AST:
                self.generic_visit(n)
                if n is st.value or id(n) in blocked or not isinstance(n.func, ast.Name):
                    return n
                q = mi.functions.get(n.func.id)
                h = prog.functions[q].node if q and q in prog.functions and q != fi.qual else None
                if h is None or not _inlinable(h) or not any(isinstance(r, ast.Return) for r in ast.walk(h)):
                    return n
                counter[0] += 1
                nm = f"{n.func.id.strip('_')}__v{counter[0]}"
                pre.append(ast.copy_location(ast.Assign(targets=[ast.Name(id=nm, ctx=ast.Store())], value=n, lineno=st.lineno), st))
                return ast.copy_location(ast.Name(id=nm, ctx=ast.Load()), n)
        st.value = H().visit(st.value)
        for s_ in pre:
            ast.fix_missing_locations(s_)
        return pre + [st]

    def expand(body: List[ast.stmt], caller_names: Set[str], d: int) -> List[ast.stmt]:
        out: List[ast.stmt] = []
        body = [x for st in body for x in hoist(st)]
        for st in body:
            # recurse into compound statements first
            for fld in ("body", "orelse", "finalbody"):
                sub = getattr(st, fld, None)
                if isinstance(sub, list) and sub and isinstance(sub[0], ast.stmt):
                    setattr(st, fld, expand(sub, caller_names, d))
            if isinstance(st, ast.Try):
                for hd in st.handlers:
                    hd.body = expand(hd.body, caller_names, d)
            call: Optional[ast.Call] = None
            target: Optional[ast.AST] = None
            if isinstance(st, ast.Assign) and len(st.targets) == 1 and isinstance(st.value, ast.Call):
                call, target = st.value, st.targets[0]
            elif isinstance(st, ast.Expr) and isinstance(st.value, ast.Call):
                call = st.value
            q = mi.functions.get(call.func.id) if call is not None and isinstance(call.func, ast.Name) else None
            h = prog.functions[q].node if q and q in prog.functions and q != fi.qual else None
            if d <= 0 or h is None or not _inlinable(h) or any(isinstance(a, ast.Starred) for a in call.args) or any(k.arg is None for k in call.keywords):
                out.append(st)
                continue
            params = [a.arg for a in h.args.args]
            bound: Dict[str, ast.AST] = {}
            for p_, a_ in zip(params, call.args):
                bound[p_] = a_
            for k in call.keywords:
                if k.arg in params:
                    bound[k.arg] = k.value
            defaults = h.args.defaults
            for p_, dflt in zip(params[len(params) - len(defaults):], defaults):
                bound.setdefault(p_, dflt)
            if set(bound) != set(params):
                out.append(st)
                continue
            hb = copy.deepcopy([s for s in h.body if not (isinstance(s, ast.Expr) and isinstance(s.value, ast.Constant))])
            assigned_in_h = _assigned(ast.Module(body=hb, type_ignores=[]))
            tname = target.id if isinstance(target, ast.Name) else None
            mapping: Dict[str, ast.AST] = {}
            pre: List[ast.stmt] = []
            for p_ in params:
                a_ = bound[p_]
                if isinstance(a_, ast.Name) and (p_ not in assigned_in_h or a_.id == tname):
                    mapping[p_] = a_
                elif p_ not in assigned_in_h and isinstance(a_, (ast.Attribute, ast.Constant)):
                    mapping[p_] = a_
                else:
                    counter[0] += 1
                    fresh = f"{p_}__h{counter[0]}"
                    mapping[p_] = ast.Name(id=fresh, ctx=ast.Load())
                    pre.append(ast.copy_location(ast.Assign(targets=[ast.Name(id=fresh, ctx=ast.Store())], value=copy.deepcopy(a_), lineno=st.lineno), st))
            for loc in sorted(assigned_in_h - set(params)):
                if loc in caller_names:
                    counter[0] += 1
                    mapping[loc] = ast.Name(id=f"{loc}__h{counter[0]}", ctx=ast.Load())
            ren = _Rename(mapping)
            hb = [ren.visit(s) for s in hb]
            new: List[ast.stmt] = list(pre)
            if hb and isinstance(hb[-1], ast.Return):
                ret = hb.pop()
                new += hb
                if target is not None and ret.value is not None:
                    if not (isinstance(target, ast.Name) and isinstance(ret.value, ast.Name) and ret.value.id == target.id):
                        new.append(ast.copy_location(ast.Assign(targets=[target], value=ret.value, lineno=st.lineno), st))
            else:
                new += hb
                if target is not None:
                    new.append(ast.copy_location(ast.Assign(targets=[target], value=ast.Constant(value=None), lineno=st.lineno), st))
            for s_ in new:
                ast.fix_missing_locations(s_)
            out += expand(new, caller_names | _names(ast.Module(body=new, type_ignores=[])), d - 1)
        return out

    fn.body = expand(fn.body, _names(fn), depth)  # type: ignore[attr-defined]
    for parent in ast.walk(fn):
        for ch in ast.iter_child_nodes(parent):
            ch._parent = parent  # type: ignore[attr-defined]
    return dataclasses.replace(fi, node=fn)


def expand_expr(prog: Program, module: str, expr: ast.AST, depth: int = 2) -> ast.AST:
    """A copy of `expr` in which every call of a same-module function whose body is one `return <expression>` is replaced by
    that expression with the arguments substituted (`_complexity(dimension) <= 1` -> `sum(abs(e) for e in dimension.exponents) <= 1`)."""
    mi = prog.modules[module]

    class X(ast.NodeTransformer):
        def __init__(self, d: int) -> None:
            self.d = d

        def visit_Call(self, n: ast.Call) -> ast.AST:
            self.generic_visit(n)
            if self.d <= 0 or not isinstance(n.func, ast.Name) or n.keywords or any(isinstance(a, ast.Starred) for a in n.args):
                return n
            q = mi.functions.get(n.func.id)
            h = prog.functions[q].node if q and q in prog.functions else None
            if not isinstance(h, ast.FunctionDef) or h.decorator_list:
                return n
            body = [st for st in h.body if not (isinstance(st, ast.Expr) and isinstance(st.value, ast.Constant))]
            hp = [a.arg for a in h.args.args]
            if len(body) != 1 or not isinstance(body[0], ast.Return) or body[0].value is None or len(hp) != len(n.args) \
                    or h.args.vararg or h.args.kwarg or h.args.kwonlyargs:
                return n
            m = dict(zip(hp, n.args))
            inner = _Rename({k: v for k, v in m.items()}).visit(copy.deepcopy(body[0].value))
            return X(self.d - 1).visit(inner)
    return ast.fix_missing_locations(X(depth).visit(copy.deepcopy(expr)))
