"""Verdict, evidence and known-finding plumbing shared by every check.

Exit codes (DESIGN.md section 2):
  0  every armed obligation discharged (known findings printed, not failing)
  1  VIOLATION property=<id> replay=<path>
  2  ANALYSIS-ERROR (anchor vanished, parse failure, checker crash)
"""
from __future__ import annotations

import json
import os
import sys
import time
import traceback
from dataclasses import dataclass, field
from typing import Any, Callable, Dict, List, Optional, Tuple

VERIF = os.path.dirname(os.path.dirname(os.path.abspath(__file__)))
REPO = os.environ.get("VERIF_REPO", "/repo")
SRC = os.path.join(REPO, "src", "measured")
KNOWN_FILE = os.path.join(VERIF, "known_findings.json")
EVIDENCE_DIR = os.environ.get("VERIF_EVIDENCE_DIR", os.path.join(VERIF, "evidence"))
REPLAY_DIR = os.environ.get("VERIF_REPLAY_DIR", os.path.join(VERIF, "replay"))


class AnalysisError(Exception):
    """An anchor vanished or an idiom is not recognised: exit 2, never a verdict."""


def rel(path: str) -> str:
    try:
        return os.path.relpath(path, REPO)
    except ValueError:
        return path


@dataclass
class Finding:
    rule: str
    construct: str  # stable key: qualified name / symbol triple / declaration pair
    message: str
    where: str = ""  # file:line for the reader; never part of the key
    detail: Dict[str, Any] = field(default_factory=dict)

    def key(self, prop: str) -> Tuple[str, str, str]:
        return (prop, self.rule, self.construct)


@dataclass
class Rule:
    rid: str
    text: str
    armed: bool = True
    floor: int = 0
    instances: int = 0
    discharged: int = 0
    samples: List[Any] = field(default_factory=list)
    inventory: List[Any] = field(default_factory=list)


class Report:
    def __init__(self, prop: str, tier: str, title: str = "") -> None:
        self.prop = prop
        self.tier = tier
        self.title = title
        self.rules: Dict[str, Rule] = {}
        self.findings: List[Finding] = []
        self.assumptions: List[str] = []
        self.trusted_base: List[str] = []
        self.analysed: Dict[str, Any] = {}
        self.not_decided: List[str] = []
        self.t0 = time.time()
        self.seed = int(os.environ.get("VERIF_SEED", "0") or 0)
        self.extra: Dict[str, Any] = {}
        self._keys: set = set()

    # -- declaring rules -------------------------------------------------
    def rule(self, rid: str, text: str, armed: bool = True, floor: int = 0) -> Rule:
        r = self.rules.get(rid)
        if r is None:
            r = Rule(rid, text, armed, floor)
            self.rules[rid] = r
        return r

    # -- recording obligations ------------------------------------------
    def ok(self, rid: str, construct: str, note: Any = None) -> None:
        r = self.rules[rid]
        r.instances += 1
        r.discharged += 1
        self._keys.add((rid, construct))
        if len(r.samples) < 6:
            r.samples.append({"construct": construct, "verdict": "ok", "note": note})

    def fail(
        self,
        rid: str,
        construct: str,
        message: str,
        where: str = "",
        **detail: Any,
    ) -> None:
        r = self.rules[rid]
        r.instances += 1
        self._keys.add((rid, construct))
        if not r.armed:
            r.inventory.append({"construct": construct, "note": message, "where": where})
            r.discharged += 1
            return
        self.findings.append(Finding(rid, construct, message, where, detail))

    def check(
        self,
        rid: str,
        construct: str,
        cond: bool,
        message: str,
        where: str = "",
        note: Any = None,
        **detail: Any,
    ) -> bool:
        if cond:
            self.ok(rid, construct, note)
        else:
            self.fail(rid, construct, message, where, **detail)
        return cond

    def inventory(self, rid: str, item: Any) -> None:
        r = self.rules[rid]
        r.inventory.append(item)

    def assume(self, text: str) -> None:
        if text not in self.assumptions:
            self.assumptions.append(text)

    def trust(self, text: str) -> None:
        if text not in self.trusted_base:
            self.trusted_base.append(text)

    # -- finishing --------------------------------------------------------
    def defer(self, e: "AnalysisError") -> None:
        if not hasattr(self, "deferred"):
            self.deferred: List[AnalysisError] = []
        self.deferred.append(e)

    def finish(self) -> int:
        # floors: a rule that matches fewer instances than confirmed by hand is broken.  A
        # violation found elsewhere is still reported (below); only a run with nothing new to
        # report fails as analysis-broken.
        floor_problems = [f"rule {r.rid} matched {r.instances} instance(s), below its floor of {r.floor}"
                          for r in self.rules.values() if r.instances < r.floor]
        known = load_known()
        known_keys = {(k["property"], k["rule"], k["construct"]): k for k in known["known"]}
        new: List[Finding] = []
        printed_known: List[Dict[str, Any]] = []
        seen = set()
        for f in self.findings:
            k = f.key(self.prop)
            if k in seen:
                continue
            seen.add(k)
            if k in known_keys:
                printed_known.append(known_keys[k])
                print(
                    f"KNOWN-FINDING: property={self.prop} {f.rule} {f.construct}: "
                    f"{known_keys[k].get('what', f.message)}"
                )
            else:
                new.append(f)
        if floor_problems and not new:
            raise AnalysisError("; ".join(floor_problems) + ": anchors moved or an idiom is no longer recognised")
        # an analysis error a check chose to defer (part of the code is outside what one rule can read): it
        # decides the run only when no other rule reports a violation
        if getattr(self, "deferred", None) and not new:
            raise self.deferred[0]
        stale = [k for k in known_keys if k[0] == self.prop and k not in seen]
        obligations = sum(r.instances for r in self.rules.values() if r.armed)
        discharged = sum(r.discharged for r in self.rules.values() if r.armed)
        level = "proof" if (not printed_known and not new and LEVELS.get(self.prop, "other") == "proof") else LEVELS.get(self.prop, "other")
        if level == "proof" and (printed_known or new):
            level = "other"
        wall = time.time() - self.t0
        samples: List[Any] = []
        for r in self.rules.values():
            for s in r.samples[:2]:
                samples.append({"rule": r.rid, **s})
        for f in self.findings[:6]:
            samples.append({"rule": f.rule, "construct": f.construct, "verdict": "finding", "note": f.message, "where": f.where})
        coverage: Dict[str, Any] = {
            "obligations": obligations,
            "discharged": discharged,
            "checker_cmd": f"./check {self.prop} --tier {self.tier}",
            "trusted_base": self.trusted_base,
            "evaluations": max(obligations, 1),
            "distinct_nontrivial": len(self._keys),
            "rule": "one evaluation = one (rule, construct) obligation instantiated from the repository's source; all are distinct by construction (keyed by rule and construct) and non-trivial (each names a construct whose breakage breaks the property)",
            "samples": samples or [{"note": "no instance"}],
            "explanation": self._explanation(printed_known, new),
            "exhaustive": True,
            "rules": {
                r.rid: {
                    "text": r.text,
                    "armed": r.armed,
                    "instances": r.instances,
                    "discharged": r.discharged,
                    "floor": r.floor,
                    "inventory": r.inventory[:60],
                }
                for r in self.rules.values()
            },
            "analysed": self.analysed,
            "known_findings_printed": [
                {"rule": k["rule"], "construct": k["construct"], "what": k.get("what", "")}
                for k in printed_known
            ],
            "stale_known_entries": [list(k) for k in stale],
            "not_decided": self.not_decided,
        }
        coverage.update(self.extra)
        ev = {
            "property_id": self.prop,
            "tier": self.tier,
            "seed": self.seed,
            "level": level,
            "coverage": coverage,
            "assumptions": self.assumptions,
            "wall_s": round(wall, 3),
            "violations": len(new),
        }
        os.makedirs(EVIDENCE_DIR, exist_ok=True)
        with open(os.path.join(EVIDENCE_DIR, f"{self.prop}.json"), "w") as fh:
            json.dump(ev, fh, indent=1, ensure_ascii=False, default=str)
        print(
            f"[{self.prop}] tier={self.tier} rules={len(self.rules)} obligations={obligations} "
            f"discharged={discharged} known={len(printed_known)} new={len(new)} wall={wall:.2f}s"
        )
        for r in self.rules.values():
            print(
                f"  {r.rid:7s} {'armed' if r.armed else 'inv  '} instances={r.instances:4d} "
                f"ok={r.discharged:4d} floor={r.floor:3d}  {r.text[:90]}"
            )
        if new:
            os.makedirs(REPLAY_DIR, exist_ok=True)
            path = os.path.join(REPLAY_DIR, f"{self.prop}.json")
            with open(path, "w") as fh:
                json.dump(
                    {
                        "property": self.prop,
                        "tier": self.tier,
                        "repo": REPO,
                        "findings": [
                            {
                                "rule": f.rule,
                                "rule_text": self.rules[f.rule].text,
                                "construct": f.construct,
                                "message": f.message,
                                "where": f.where,
                                "detail": f.detail,
                            }
                            for f in new
                        ],
                    },
                    fh,
                    indent=1,
                    ensure_ascii=False,
                    default=str,
                )
            for f in new:
                print(f"  FINDING {f.rule} {f.construct} @ {f.where}: {f.message}")
            for fp in floor_problems:
                print(f"  NOTE {fp} (the tree differs structurally from the one the rule was instantiated on)")
            print(f"VIOLATION property={self.prop} replay={path}")
            return 1
        return 0

    def _explanation(self, known: List[Dict[str, Any]], new: List[Finding]) -> str:
        parts = [
            f"Static analysis of {rel(SRC)} (nothing imported or executed).",
            f"{len(self.rules)} rules instantiated on the current tree; see coverage.rules for the "
            "text of each rule, how many constructs it matched and the floor confirmed by hand.",
        ]
        if known:
            parts.append(
                f"{len(known)} obligation(s) fail on genuine, reproduced defects listed in "
                "known_findings.json; every other armed obligation is discharged."
            )
        if new:
            parts.append(f"{len(new)} new violation(s) reported.")
        if self.not_decided:
            parts.append("Not decided by this check: " + "; ".join(self.not_decided))
        return " ".join(parts)


def load_known() -> Dict[str, Any]:
    if not os.path.exists(KNOWN_FILE):
        return {"known": [], "fixed": []}
    with open(KNOWN_FILE) as fh:
        data = json.load(fh)
    data.setdefault("known", [])
    data.setdefault("fixed", [])
    return data


# level claimed per property when the tree has no known finding for it; a property
# with printed known findings always reports "other"
LEVELS: Dict[str, str] = {}


def run_check(prop: str, tier: str, fn: Callable[[Report], None], title: str = "") -> int:
    rep = Report(prop, tier, title)
    try:
        fn(rep)
        return rep.finish()
    except AnalysisError as e:
        print(f"ANALYSIS-ERROR property={prop}: {e}")
        return 2
    except SystemExit:
        raise
    except BaseException:  # noqa: BLE001 - a crash must not look like a violation
        traceback.print_exc()
        print(f"ANALYSIS-ERROR property={prop}: checker crashed (traceback above)")
        return 2
