"""Which properties are claimed, with the text that goes into MANIFEST.json."""

ENGINES = [
    {"name": "E1", "path": "sa/model.py, sa/calls.py, sa/cfg.py", "serves_properties": ["C01", "C02", "C03", "C05", "C06", "C07", "C08", "C11", "C12", "C14", "C15", "C17", "C18", "C19", "C20"],
     "kind_free_text": "resolved program model: ast tables, mypy-as-library expression types, call-site resolution incl. operator dispatch, context-pruned reachability, statement CFG with dominators"},
    {"name": "E2/E3", "path": "sa/effects.py", "serves_properties": ["C07", "C08", "C17", "C19", "C20"],
     "kind_free_text": "effect analysis (shared mutable locations read/written, closed over the call graph) and exception-flow analysis (may-escape sets with handler matching)"},
    {"name": "E4", "path": "sa/absint.py, sa/specs.py, sa/poly.py, sa/algebra.py, sa/quantity_rules.py, sa/e4util.py", "serves_properties": ["C01", "C02", "C03", "C05", "C06", "C10", "C11", "C14", "C18"],
     "kind_free_text": "physical-value abstract interpretation: units-of-measure typing and polynomial normal forms over the library's own operator bodies"},
    {"name": "E6", "path": "sa/grammar.py", "serves_properties": ["C13", "C15", "C16", "C17"],
     "kind_free_text": "table extraction from the generated parser, reference LALR construction with Lark, automaton isomorphism, table-driven LALR driver"},
    {"name": "E5", "path": "sa/decl.py, sa/num.py", "serves_properties": ["C05", "C09", "C10", "C11", "C13", "C18", "C19"],
     "kind_free_text": "partial evaluator for the module-level declaration DSL in exact rational arithmetic; multiplicative Gaussian elimination over unit sizes"},
]

PENDING = "check not built yet in this session (see DESIGN.md section 4 for the design); not claimed until it runs clean"

NOT_APPLICABLE = {
    "C04": "quantifies over the numerical result of a heuristic multiset search (factor replacement, dimension matching, gcd reduction) that no sound static abstraction in reach can follow; its shape-visible clauses are decided under C05/C10/C11 (DESIGN.md section 6)",
}
for _p in ["C01", "C02", "C03", "C05", "C06", "C07", "C08", "C09", "C10", "C11", "C12", "C13", "C14", "C15", "C16", "C17", "C18", "C19", "C20"]:
    NOT_APPLICABLE.setdefault(_p, PENDING)

E4_NOTE = ("Trusted: mypy 2.3.1 as a library for expression types (operator dispatch), CPython's ast, the idiom "
           "recognisers of sa/absint.py (an unrecognised shape is exit 2, never a verdict). Each layer is checked against "
           "its own specification and replaced by it when a higher layer calls into it.")

CHECKS = {
    "C01": {
        "engine": "E1+E4",
        "technique": "abstract interpretation of every Unit(...) construction site in a three-component group domain (prefix / factors / dimension) + CFG dominance of exactness guards over floor divisions",
        "level_text": "Unit.__new__ ignores the dimension argument for an interned key, so the history property reduces to: every construction site passes the dimension that is the homomorphic image of the factors it passes. All 10 sites are enumerated from the resolved call graph and decided for all operands at once; the three root() guards are decided on the CFG (floor division or divmod); the dimension a serialised unit is rebuilt with must be decoded from the encoded exponents on every path (R01.7); re-constructing an interned unit must leave its fields alone (R01.8, pruned CFG of __init__); only the core module calls the interning constructor (R01.9). Every obligation is discharged on the repaired tree (two fix: commits). Methods that take a unit apart as base ** exponent are also run on such operands (R01.1 then decides a fast path's dimension argument).",
        "design_ref": "DESIGN.md section 4, C01",
        "level_note": E4_NOTE + " Assumes Dimension arithmetic is the exponent-vector group (decided by C02 R02.5).",
    },
    "C02": {
        "engine": "E1+E4",
        "technique": "structural rules on the three interning constructors (key dataflow, CFG dominance of the table store) + abstract interpretation of every Dimension/Prefix/Unit operator against the free-abelian-group specification (log-values for prefixes)",
        "level_text": "Eleven structural facts (canonical keys, intern protocol, Dimension.define re-keying every interned dimension, no memoised operator keyed by conflated numeric types, identity hashing or an __eq__/__hash__ that is exactly the interning key over never-reassigned fields, factor order by identity, componentwise group operations, renormalisation, no allocation bypass, base-unit keys, change-of-base identity) together imply that interned objects are exactly the elements of a free abelian group, for expression trees of any shape. Each fact is an armed rule over resolved structure; all are discharged. A binary operator rejects an operand it does not know by returning NotImplemented, never by raising, whenever another class defines the reflected operator (R02.12); integer helpers called per element are interpreted, with sign cases kept consistent.",
        "design_ref": "DESIGN.md section 4, C02",
        "level_note": E4_NOTE + " Not decided: the 1e-9 numeric bound for mixed-base prefixes and exactness tests on float exponents.",
    },
    "C03": {
        "engine": "E1+E4",
        "technique": "abstract interpretation of every Quantity operator to a normal form of its physical value (units-of-measure typing + polynomial normalisation); AST shape rule on the Decimal helpers; mypy-typed lint; CFG dominance of the dimension gates",
        "level_text": "For every operator arm the result's physical value and dimension component are compared with the operation applied to the operands' values, for all operands at once; result kind, left-unit, Decimal discipline and gate dominance are structural rules. All obligations are discharged except Quantity.__rtruediv__ (keeps the unit), a genuine defect pinned by the suite and recorded as a known finding - hence 'other'. Every further arithmetic hook Quantity defines is decided by its family (R03.8): an alias only for the reflected form of a commutative operator, additive hooks (%, divmod's remainder, in-place + and -) must take the right operand itself through the dimension gate.",
        "design_ref": "DESIGN.md section 4, C03",
        "level_note": E4_NOTE + " Axioms: in_unit is value-preserving (C04); unit operators are the group operations (C02). Not decided: complex roots of negative magnitudes, float overflow.",
    },
    "C05": {
        "engine": "E1+E4+E5",
        "technique": "abstract interpretation of the table stores in equate/translate (orientation and reciprocity as normal-form identities), def-use rules on convert (affine, magnitude-independent, requested unit), shape rules on the path search, declared-data table from E5",
        "level_text": "Decides the structural half of the property for all inputs: stored directions are mutual inverses and oriented as [from][to] = v(from)/v(to); for fixed units convert is m -> A*m + B with A, B independent of m and returns the requested unit; the search reads both tables in one direction and orders hops; declared ratios are positive and offset scales are leaves (so B = 0 between offset-free units). Numerical agreement of routes is NOT decided (needs C04 and C09). _inline_paths is element-wise and append-only (R05.10); the exponent a matched or cancelled factor is applied with agrees with the dimension _splat files it under, decided by partial evaluation of the sign computation on the three sign patterns of a base dimension (R05.11).",
        "design_ref": "DESIGN.md section 4, C05",
        "level_note": E4_NOTE + " Not decided: round-trip / route-independence numerics; exponent handling of multi-hop paths between powers of units (planner heuristics).",
    },
    "C16": {
        "engine": "E6",
        "technique": "translation validation: the grammar is compiled with Lark as the Makefile does; terminals, rules (up to renaming of generated helper nonterminals), options and the LALR automaton (isomorphism by BFS from the start states) are compared with the tables extracted from _parser.py by an AST literal evaluator",
        "level_text": "Same terminals, same rules including tree-shaping options, and isomorphic LALR tables run by the same table-driven runtime accept the same language and build the same trees, for every input string and both start symbols; the embedded lexer is shown to consume input only through the scanner built from that terminal table (R16.7), the LALR driver to read actions and gotos from those tables (R16.8), and 191 of the 250 functions of the embedded runtime are AST-identical to the installed Lark's source (R16.9); the 59 that differ between the two Lark versions and the module/class skeleton are compared with the generator's pinned output while the embedded version string is unchanged (R16.10), and no module assigns into the generated parser module (R16.11). Complete for the language question given the trusted embedded runtime; no input is parsed. Tables shipped in the generator's compressed form (base64 / zlib / pickle of plain data) are decoded as data - any class reference in the pickle is refused - and compared like the literal form. No module changes, in place, an object reached from the generated module or from the parser built from it (R16.11, taint analysis).",
        "design_ref": "DESIGN.md section 4, C16",
        "level_note": "Trusted: the 59 functions of the embedded Lark 1.1.2 runtime that differ from Lark 1.3.1 (sa/data/lark_runtime_residue.json; no reference copy of 1.1.2 offline), Lark 1.3.1 as grammar compiler and as reference source. Serialisation fields only one version has are skipped and named in the evidence.",
    },
    "C17": {
        "engine": "E1+E2/E3+E6",
        "technique": "callback coverage against the shipped grammar tables; context-pruned reachability from the transformer callbacks; explicit-raise closure against KeyError / LarkError subclasses (hierarchy read from _parser.py's AST); interprocedural catch-and-convert rule for int() of unbounded tokens; who-may-write on the registries; memo-key lint",
        "level_text": "Every grammar rule has a callback; on the functions reachable from the callbacks the only exception classes that can escape through raise statements are KeyError and LarkError subclasses; the three int() conversions of unbounded digit tokens are caught and re-raised as ParseError (one fix: commit), and a table of other library calls that are partial on text (unicodedata.name, Decimal, next, str.index ...) is applied to the parser zone; a bare builtin magnitude callback must be fed by Lark's standard number terminal (R17.6); no reachable function writes a name/symbol registry or imports a declaring module; magnitudes come from the builtin int/float; no memo on the path is keyed by a number or reads the registries. Lexing/parsing failures inside the embedded Lark runtime are the trusted base. The callbacks of the shared module-level transformer keep no state on it (R17.7: the same text parses the same whatever was parsed or rejected before), and nothing on the parse path issues a warning (R17.8: a warning leaves parse() as an exception of its category wherever warnings are escalated). Builtin exceptions raised in the algebra code the callbacks reach are part of the closure (the sites on the unchanged tree are infeasible in the parse context).",
        "design_ref": "DESIGN.md section 4, C17",
        "level_note": "Trusted: the embedded Lark runtime raises only LarkError subclasses; mypy call resolution; Any-typed arguments conform to annotations. Not decided: implicit exceptions of builtins outside the partial-call table (float('1e999') is inf).",
    },
    "C19": {
        "engine": "E1+E2+E5",
        "technique": "interprocedural write-then-raise analysis on statement CFGs of the definition entry points (summaries of may-write-naming / may-raise per callee); dominance of raising guards over registry bindings; constructor early-return rule; creation trace and registries from the declaration evaluator under every entry module; memo-over-registry rule",
        "level_text": "A failing definition leaves the registries untouched iff no raise is reachable after a naming write on any path through the entry point and its callees; a name is never bound to two objects iff every binding is dominated by a raising test and the shipped tables have no duplicates; a declared name survives an earlier anonymous construction iff the declaring constructor registers late names; a rejected constructor call leaves no half-built or prematurely initialised instance in the intern table (R19.7/R19.8, must-assign analysis on the CFG of __init__); no shipped dimension is declared under two names (R19.9); named(name) is the name registry's entry (R19.10); no assert in naming functions (R19.11); registries are plain dicts (R19.12); Dimension.scale is an entry point with summaries computed over the context-pruned reachable set. All decided structurally and, for the shipped configuration, exhaustively; discharged after six fix: commits. An interning __new__ whose __init__ registers names on initialised instances returns only the object of the call's own key, never one fetched from a name registry (R19.13). Taking an entry out of an intern table (re-keying) counts as a write for R19.1.",
        "design_ref": "DESIGN.md section 4, C19",
        "level_note": "Trusted: mypy call resolution; E5's declaration model. That the intern table keeps an anonymous, fully built instance after a failing definition is accepted (indistinguishable from an earlier anonymous construction); Dimension.scale's translate() guard is infeasible for a fresh unit and is not an entry.",
    },
    "C20": {
        "engine": "E1+E2",
        "technique": "typestate-style structural rule on the interning constructors (membership test and insertion in one atomic section: common module-level lock or returned dict.setdefault), who-may-write on the intern tables, effect check on the lru_cache'd helpers",
        "level_text": "All threads obtain one object and the registry keeps one entry under every interleaving iff test-and-insert is a single atomic step in each of the three constructors and nothing else writes the tables; decided on the shape of Dimension/Prefix/Unit.__new__ (setdefault idiom after one fix: commit), with the memoised helpers and everything they call shown free of shared effects apart from interning (class-level scratch containers count), and the intern tables shown to be builtin dicts (R20.4). Schedules are not enumerated: the argument is that no interleaving point exists between test and insert. In the three __init__ methods every attribute an intern key is built from is assigned once on each path: an interned object is visible to other threads before __init__ runs, and __init__ is re-run on it by every thread that got it early (R20.5). R20.3 covers every module of the package, the shipped test helpers included.",
        "design_ref": "DESIGN.md section 4, C20",
        "level_note": "Trusted: CPython's GIL makes dict.setdefault on C-hashed keys atomic; functools.lru_cache is thread-coherent. Not decided: visibility of a partially initialised object between __new__ and __init__; free-threaded builds.",
    },
    "C18": {
        "engine": "E1+E4+E5",
        "technique": "abstract interpretation of LogarithmicUnit.level and Level.quantify to normal forms with ln/exp heads, compared with the logarithmic definition; units-of-measure typing of the log argument; structural rules; declared bases from E5",
        "level_text": "level() normalises to (k/p)*log_B(val(q)/val(ref)) and quantify() to B**(L*p/k)*ref for symbolic base, prefix, power ratio, reference and units, so the two directions are mutually inverse and the level is increasing for B > 1 (all declared bases are). The log argument is shown dimensionless, the reference unprefixed, k in {1,2} by membership, and Logarithm / LogarithmicUnit are interned under keys that determine their defining arguments exactly (R18.7); membership in ROOT_POWER_DIMENSIONS cannot go stale (R18.8) and the table has no entry written twice (R18.9); a pickle hook on Logarithm/LogarithmicUnit covers its interning key (R18.10); Level.__init__ keeps what it is given (R18.11); Prefix.quantify is base**exponent (R11.2, shared). prefix * logarithm keeps the base and multiplies the prefixes: log-values add on every arm with Prefix.__mul__ interpreted (R18.12). log10 / log2 / log1p are modelled, so a level() that special-cases its base is decided per arm; a result the interpreter cannot model is an analysis error, not a verdict.",
        "design_ref": "DESIGN.md section 4, C18",
        "level_note": E4_NOTE + " Axiom: in_unit value-preserving (C04). Not decided: floating-point rounding.",
    },
    "C06": {
        "engine": "E1+E4",
        "technique": "abstract interpretation: physical-value normal forms of + - * / ** and of the magnitudes compared in __eq__/__lt__ (under their path conditions), relative to the in_unit axiom; layering rule on prefix arithmetic",
        "level_text": "If every operator's result has the physical value of the operation applied to the operands' physical values, re-expressing an operand cannot change the result. Decided for all operands at once as identities of normal forms; the comparison operators are shown to compare the operands' own physical values in one unit and to return exactly that comparison on every path (no constant shortcut, no tolerance); value fields of the shared value objects are assigned only by their constructors (R06.6); Quantity.__init__ stores what it is given (R03.7), the tables are keyed by unprefixed units (R05.1) and the planner's exchanged steps are turned round (R05.9). number/quantity (__rtruediv__) is a known finding, hence 'other'. The planner stages a mixed-unit + or == goes through keep each step's own ratio and order (R05.10) and apply each factor with the sign of the dimension it is filed under (R05.11), shared with C05.",
        "design_ref": "DESIGN.md section 4, C06",
        "level_note": E4_NOTE + " Proved relative to the in_unit axiom (C04). Not decided: rounding ties.",
    },
    "C12": {
        "engine": "E1+E4+E7",
        "technique": "order-domain evaluation: the overlap predicate is extracted from the AST and evaluated on every weak ordering of the four interval bounds; dispatch matrix of the three __eq__ methods resolved through their isinstance arms and Python's reflected fallback; field-normalisation contradiction rule for __hash__; operator-consistency rule on ordering methods; comparison normal forms shared with C06",
        "level_text": "Symmetry of Measurement equality is decided exhaustively over all 26 admissible weak orders (finite and complete: the predicate touches its arguments only through comparisons); for each of the 9 ordered type pairs both directions reduce to the same predicate on the same normalised operands; ordering methods use their own operator on every path; == and < compare physical values and return that exact comparison (C06); a subclass overriding a comparison must treat both operands alike (R12.7); an uncertainty is never converted as a point on the scale (R12.8); value objects carry no cached state such as a memoised hash (R06.6). Quantity.__hash__ hashes fields that __eq__ normalises - a genuine defect pinned by the suite, recorded as a known finding, hence 'other'. The conversion behind a mixed-unit comparison applies each factor with the sign of the dimension it is filed under (R05.11, shared with C05).",
        "design_ref": "DESIGN.md section 4, C12",
        "level_note": E4_NOTE + " Not decided: trichotomy / sorted() numerically at floating-point ties; overlap equality is not transitive by design.",
    },
    "C13": {
        "engine": "E5+E6+E1",
        "technique": "symbol-table analysis over the evaluated declarations (every prefix x unit spelling resolved in the code's order and compared by exact size); string-language abstraction of the formatter (regular language over piece classes from static types) driven through the shipped LALR tables with a contextual lexer; table rules for superscripts and separators; memo-over-registry rule",
        "level_text": "Exhaustive over the shipped configuration for the symbol table (28 prefixes x 176 symbols, all names) and over the abstracted formatter language for shapes with 1-3 terms (induction over term+ covers longer products). Twelve genuine defects (seven colliding spellings such as cd / Pa / ha, a leading magnitude and a base-power prefix form in unit_str, inf/nan magnitudes) are reproduced and listed as known findings, hence 'other'; any new colliding symbol, unlexable symbol, or formatter piece without a grammar counterpart is a violation; the resolution order assumed by the table analysis is re-derived from Unit.resolve_symbol by walking it under the eight registration cases, the parser layer may resolve a token only as Unit.resolve_symbol(token) (R13.8), and a prefix pushed into a rendered term must have passed Prefix.root (R13.7).",
        "design_ref": "DESIGN.md section 4, C13",
        "level_note": "Trusted: E5's model and unit sizes (C09), shipped tables equal the grammar (C16), mypy expression types behind the string abstraction. Not decided: identity of the parsed-back object; every subset of imported modules.",
    },
    "C15": {
        "engine": "E1+E6+E5",
        "technique": "structural agreement rules between sibling codecs (__getnewargs_ex__ vs __new__ key parameters; __json__ keys vs __from_json__ reads; tag dispatch table; Decimal writer/reader pairing; pickle hook inventory) + the formatter-language inclusion of C13 at the serialisation sites",
        "level_text": "Writer and reader of each representation are compared as tables extracted from the AST: keys, tags, positions and type conversions must agree, nothing may route a Quantity's unit through text for pickle/copy, the Dimension/Prefix decoders must rebuild from the encoded structural key on every path (R15.7), and no encoder/decoder may be memoised over values whose equality ignores the magnitude type or over the registries (R15.9, R15.10); codecs_installed sets and restores each implicit json hook (R15.11); no decoder writes a registry (R15.12); every interned class with a pickle hook passes all of its interning arguments (R15.1). The stored unit text is str(unit); its language is checked against the parser (three known findings inherited from C13 R13.3 and seven from the symbol-table rule R15.8 = C13 R13.2: a quantity in centi-days decodes as candela; hence 'other'). The pydantic schema hands the wire form to the library's own decoder and encoder with no converting pydantic schema in between (R15.13).",
        "design_ref": "DESIGN.md section 4, C15",
        "level_note": "Trusted: CPython's pickle/copy/json protocols; E5 tables (every base unit is named). Not decided: equality of decoded float magnitudes; third-party serializers.",
    },
    "C14": {
        "engine": "E1+E4",
        "technique": "abstract interpretation of every Measurement operator to normal forms (rational functions with sqrt/abs heads); symbolic differentiation of the method's own measurand expression; units-of-measure typing of the stored uncertainty",
        "level_text": "For + - * / ** and the reflected forms, with a Measurement or a plain Quantity on the other side, sigma^2 of the result is normalised and compared with sum((df/dx_i)^2 sigma_i^2), f being the measurand expression of the same method - an identity of rational functions, hence for all magnitudes, uncertainties, units and (symbolic) exponents (sign cases of abs(n) and zero-measurand shortcuts are explored as choice points). Unit typing, absence of spurious singularities, abs() storage, a constructor that keeps what it is given (R14.6) and Quantity operators that step aside for a Measurement operand (R14.7) are separate armed rules. All obligations are discharged after two fix: commits. No assert takes part in the computation of an uncertainty (R07.9, shared with C07).",
        "design_ref": "DESIGN.md section 4, C14",
        "level_note": E4_NOTE + " Axioms: in_unit value-preserving (C04), Quantity operators as specified (C03/C06). Not decided: floating-point rounding of the verified formulas.",
    },
    "C10": {
        "engine": "E5+E1+E4",
        "technique": "exact affine-map composition over the declared temperature graph (E5, rationals from literal text) + order rules on convert/_plan_conversion (list-order abstraction) + translate store identities (E4) + comparison normal forms",
        "level_text": "Equality of the two coefficients of an affine map is equality for all magnitudes: the 12 composed maps are compared exactly with the definitions; the graph is shown to be a tree with leaf scales; multiply-then-offset within a hop, prefix-step-last across the plan, offset-preserving hop rebuilding (R10.7), offsets only ever added to a product (R10.8, package-wide and through helpers, the CLI included) and Quantity.in_unit being exactly convert(self, unit) (R05.7) are decided structurally, so prefixed targets scale the offsets too (one fix: commit). Cross-scale comparisons are shown to compare converted magnitudes. No assert takes part in a definition or a conversion (R07.9, shared with C07).",
        "design_ref": "DESIGN.md section 4, C10",
        "level_note": "Trusted: E5's declaration model; assumption that the planner follows the unique simple path of the temperature tree (the tree shape is checked). Not decided: floating-point rounding of round trips.",
    },
    "C11": {
        "engine": "E1+E4+E5",
        "technique": "abstract interpretation of Prefix/Unit operators (prefix component, log-value identities), value-preservation normal forms for quantify/unprefixed, def-use rule on convert/_plan_conversion, declared-prefix table from E5",
        "level_text": "m*(p*u) = (m*value(p))*u, (p*u)**n = p**n*u**n, same-base exponent arithmetic, identity neutrality and prefix stripping are decided as identities of normal forms for all operands; the declared prefixes are enumerated exhaustively. The text form means the unit (R11.6): a symbolic walk of formatting._unit_to_magnitude_and_terms in log-space shows leading magnitude x prod (prefix_i symbol_i)^e_i = prefix x factors on every path, and every renderer folds the magnitude in by multiplication.",
        "design_ref": "DESIGN.md section 4, C11",
        "level_note": E4_NOTE + " Not decided: the 1e-9 bound for mixed SI/IEC prefixes (floating point).",
    },
    "C07": {
        "engine": "E1+E2/E3",
        "technique": "context-pruned reachability from the conversion entry points over the mypy-resolved call graph; assert/__debug__ scan; explicit-raise closure with handler matching; CFG dominance of the visited-set guard; mypy diagnostics as a typed lint in the planner",
        "level_text": "On the set of functions reachable from convert / in_unit / + / - / == / < (about 60, parser pruned away by call-site specialisation) there is no assert and no __debug__, so -O compiles identical code; the only exception classes that can escape through raise statements are ConversionNotFound (conversion entries) and none (comparison entries); handlers are exact; the path search recursion is bounded by a per-query visited set; in the planner no reduce() runs over a possibly empty sequence no element is taken from a filtered (possibly empty) sequence without an emptiness test, no dict entry is read in a loop that may delete it, every cycle of the reachable call graph has a stated bound (R07.6), _splat puts every factor on the table (R07.7) and Measurement's comparisons never convert outside a handler (R07.8). Discharged after one fix: commit replacing four asserts. No assert anywhere in the package has an effect (R07.9), and where _cancel_factors pops under a dimension and under its inverse it tests that the two keys differ (R07.10).",
        "design_ref": "DESIGN.md section 4, C07",
        "level_note": "Trusted: mypy call resolution; assumption that Any-typed arguments conform to declared annotations. Not decided: implicit KeyError/IndexError from dict/list operations inside the planner's multiset heuristics (inventoried), and whether a possible conversion is found (C04).",
    },
    "C08": {
        "engine": "E1+E2",
        "technique": "effect analysis: transitive (context-pruned) read sets of memoised functions vs writers of module-level tables and registries, with CFG check that each writer invalidates after writing; who-may-write; alias-taint analysis for in-place mutation of memoised results; determinism lint",
        "level_text": "History independence reduces to: every memo is over immutable inputs or is invalidated by every writer of what it reads; nothing but equate/translate writes the tables; queries keep no other state; cached objects are never mutated in place; no address-dependent iteration. All rules are armed over resolved structure and discharged after one fix: commit (cache invalidation); memo keys must not conflate numeric types (R08.6); nothing changes the decimal context (R08.7) and in_unit is convert(self, unit) with nothing around it (R05.7). A helper that clears the caches counts as an invalidation only for the caches it clears on every path to its normal exit (a conditional clear is none). Nothing inside a memoised computation turns an environment-dependent exception (RecursionError, MemoryError, a catch-all) into a value the memo would keep (R08.8); a mutable default argument that its function writes is shared state wherever it is (R08.3).",
        "design_ref": "DESIGN.md section 4, C08",
        "level_note": "Trusted: mypy call resolution, functools.lru_cache semantics. Intern tables (_known) are exempt by kind (append-only, idempotent). Not decided: bit-identical floating-point results across processes.",
    },
    "C09": {
        "engine": "E5",
        "technique": "partial evaluation of the declaration DSL from the AST in exact rational arithmetic + multiplicative Gaussian elimination (every cycle of the definition graph) + graph reachability under the planner's decomposition rules (anchors verified in the source)",
        "level_text": "Every declared equivalence of every shipped module is evaluated from source text in exact arithmetic; every dependent equation (= every cycle, also through compound units) must close within 1e-5 x degree, every base unit must be determined by the equations and the SI anchors, and every named unit must satisfy a necessary condition for the planner to reach SI that is derived from three facts re-verified in conversions.py (paths join whole units; a unit is decomposed only through its own larger equivalence and never in a base dimension): R09.7 found Donkeypower stranded (one fix: commit). Exhaustive over the shipped configuration, which is the property's whole quantifier; one genuine inconsistency (TonOfRefrigeration) is pinned by the tests and listed as a known finding, hence 'other' rather than 'proof'. One and the dimensionless SI units (radian, steradian) are worth 1 - SI defines them so and the planner sheds them without a step (anchor F4, re-verified) - so an equation that would give one of them another size is a dependent equation with a residual; when _cancel_factors emits steps for a left-over dimensionless factor instead, a named compound containing one (lumen, lux) needs a declared path from that factor to One (R09.7). R09.7 is checked in both directions: the search from the SI unit to a unit takes a common root only when both ends have one (anchor F5), so a unit tied to SI only through a squared length needs an equivalence of its own to be decomposed through.",
        "design_ref": "DESIGN.md section 4, C09",
        "level_note": "Trusted: E5's model of Unit.equals / Dimension.scale / operator semantics (sa/decl.py); literal text is the intended exact value. Not decided: that the planner finds a route for every unit passing the necessary condition R09.7, and the value it computes (C04).",
    },
}
