"""Which properties are claimed, with the text that goes into MANIFEST.json."""

ENGINES = [
    {"name": "E1", "path": "sa/model.py, sa/calls.py, sa/cfg.py", "serves_properties": ["C01", "C02", "C03", "C05", "C06", "C07", "C08", "C11", "C12", "C14", "C15", "C17", "C18", "C19", "C20"],
     "kind_free_text": "resolved program model: ast tables, mypy-as-library expression types, call-site resolution incl. operator dispatch, context-pruned reachability, statement CFG with dominators"},
    {"name": "E5", "path": "sa/decl.py, sa/num.py", "serves_properties": ["C05", "C09", "C10", "C11", "C13", "C18", "C19"],
     "kind_free_text": "partial evaluator for the module-level declaration DSL in exact rational arithmetic; multiplicative Gaussian elimination over unit sizes"},
]

PENDING = "check not built yet in this session (see DESIGN.md section 4 for the design); not claimed until it runs clean"

NOT_APPLICABLE = {
    "C04": "quantifies over the numerical result of a heuristic multiset search (factor replacement, dimension matching, gcd reduction) that no sound static abstraction in reach can follow; its shape-visible clauses are decided under C05/C10/C11 (DESIGN.md section 6)",
}
for _p in ["C01", "C02", "C03", "C05", "C06", "C07", "C08", "C09", "C10", "C11", "C12", "C13", "C14", "C15", "C16", "C17", "C18", "C19", "C20"]:
    NOT_APPLICABLE.setdefault(_p, PENDING)

CHECKS = {
    "C09": {
        "engine": "E5",
        "technique": "partial evaluation of the declaration DSL from the AST in exact rational arithmetic + multiplicative Gaussian elimination (every cycle of the definition graph)",
        "level_text": "Every declared equivalence of every shipped module is evaluated from source text in exact arithmetic; every dependent equation (= every cycle, also through compound units) must close within 1e-5 x degree, every base unit must be determined by the equations and the SI anchors. Exhaustive over the shipped configuration, which is the property's whole quantifier; one genuine inconsistency (TonOfRefrigeration) is pinned by the tests and listed as a known finding, hence 'other' rather than 'proof'.",
        "design_ref": "DESIGN.md section 4, C09",
        "level_note": "Trusted: E5's model of Unit.equals / Dimension.scale / operator semantics (sa/decl.py); literal text is the intended exact value. Not decided: that the planner finds a route between connected units (C04).",
    },
}
